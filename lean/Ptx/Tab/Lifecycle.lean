/-
  Ptx.Tab.Lifecycle — the life cycle of a `Tableau` (proof/tableaux.py) as a state machine over
  its flag word.  Core Lean only (compiled into the driver).

  Mirrored code (pytableaux/proof/tableaux.py):
    Tableau.__init__            l.693-731   flag := PREMATURE; HAS_STEP_LIMIT / HAS_TIME_LIMIT from opts
    argument / logic setters    l.763-782   IllegalState once STARTED; auto build_trunk
    finished/completed/premature/valid/invalid  l.785-830
    build / next / step / stepiter              l.842-893
    branch / add                                l.895-920   (first branch add locks the rules)
    finish                                      l.922-952   FINISHED is set *first*
    build_trunk                                 l.954-979   four guards, then TRUNK_BUILT|STARTED
    after_rule_apply listener                   l.1082-1088 history.append, STARTED
    _check_timeout / _is_max_steps_exceeded / _gen_models   l.1196-1228
    RulesRoot.lock, `locking` decorator         l.312-322, 584-589

  What is *outside* the machine and supplied as input with each operation:
    * the reading of the build timer at every `_check_timeout()` (the wall clock),
    * what `next()` answers (an entry or None) — the whole proof search,
    * whether open branches remain after a rule was applied.
  The machine says what the flag word, `len(history)`, the verdict properties and the raised
  exception class are *given* those.  Clock readings and the time limit are in one abstract unit
  (the harness uses 2^-100 ms so that float limits are exact).
-/
namespace Ptx.Tab.Life

/-- exception classes that the life-cycle methods raise on their own -/
inductive Exc where
  | timeout        -- errors.ProofTimeoutError
  | illegalState   -- errors.IllegalStateError
  deriving DecidableEq, Repr, Inhabited

/-- the build options that matter (Tableau.defaults) -/
structure Opts where
  maxSteps       : Option Int := none
  timeout        : Option Int := none
  autoBuildTrunk : Bool := true
  isBuildModels  : Bool := false
  deriving DecidableEq, Repr, Inhabited

/-- `x is not None and x > 0` -/
def positive : Option Int → Bool
  | some m => decide (0 < m)
  | none => false

structure State where
  opts : Opts
  -- the flag word (TableauMeta.Flag); TICKED/CLOSED are per-node/branch, TIMING_INACCURATE is not modelled
  premature    : Bool
  finished     : Bool
  timedOut     : Bool
  trunkBuilt   : Bool
  hasStepLimit : Bool
  hasTimeLimit : Bool
  started      : Bool
  -- `_argument`, `_logic` (an identifier of the value that was set), a version counter of the rule set
  arg   : Option Nat
  logic : Option Nat
  rules : Nat
  rulesLocked : Bool      -- RulesRoot.locked
  histLen   : Nat         -- len(self.history)
  hasBranch : Bool        -- a branch has been added (len(self) > 0)
  hasOpen   : Bool        -- len(self.open) > 0
  treeBuilt   : Bool      -- self.tree is not None
  statsBuilt  : Bool      -- self.stats computed by finish()
  modelsBuilt : Bool      -- self.models assigned by finish()
  deriving DecidableEq, Repr, Inhabited

/-- `Tableau.__init__` before the `logic=` / `argument=` keyword arguments are applied (those are
    the operations `setLogic`, `setArgument`, in that order). -/
def init (o : Opts) : State :=
  { opts := o
    premature := true, finished := false, timedOut := false, trunkBuilt := false
    hasStepLimit := positive o.maxSteps, hasTimeLimit := positive o.timeout, started := false
    arg := none, logic := none, rules := 0, rulesLocked := false, histLen := 0
    hasBranch := false, hasOpen := false, treeBuilt := false, statsBuilt := false, modelsBuilt := false }

namespace State
/-- the flag word as the integer value of `tab.flag` restricted to the modelled bits -/
def word (s : State) : Nat :=
  (if s.premature then 4 else 0) + (if s.finished then 8 else 0) + (if s.timedOut then 16 else 0) +
  (if s.trunkBuilt then 32 else 0) + (if s.hasStepLimit then 128 else 0) +
  (if s.hasTimeLimit then 256 else 0) + (if s.started then 512 else 0)

def completed (s : State) : Bool := s.finished && !s.premature
def isPremature (s : State) : Bool := s.finished && s.premature
/-- `valid`: `if self.completed and self.argument is not None: return len(self.open) == 0` -/
def valid (s : State) : Option Bool :=
  if s.completed && s.arg.isSome then some (!s.hasOpen) else none
def invalid (s : State) : Option Bool :=
  if s.completed && s.arg.isSome then some s.hasOpen else none
/-- `self.invalid` used as a condition -/
def invalidTruthy (s : State) : Bool := s.invalid == some true
end State

/-- `self.timers.build.elapsed_ms() > self.opts['build_timeout']` guarded by HAS_TIME_LIMIT -/
def clockExceeded (s : State) (clk : Nat) : Bool :=
  s.hasTimeLimit && (match s.opts.timeout with
    | some t => decide (t < (clk : Int))
    | none => false)     -- flag set without a limit: unreachable (`Inv.timeFlag`)

/-- `_is_max_steps_exceeded` -/
def maxStepsExceeded (s : State) : Bool :=
  s.hasStepLimit && (match s.opts.maxSteps with
    | some m => decide (m ≤ (s.histLen : Int))
    | none => false)     -- unreachable (`Inv.stepFlag`)

/-- the condition under which finish() builds models, evaluated after FINISHED was set:
    `self.invalid and self.opts['is_build_models'] and self.logic is not None` -/
def wantModels (s : State) : Bool :=
  ({ s with finished := true }).invalidTruthy && s.opts.isBuildModels && s.logic.isSome

/-- `finish()`.  `mclk` = the largest timer reading seen by the `_check_timeout()` calls of
    `_gen_models` (one per open branch); only consulted when models are built.
    Returns the new state and the exception finish() re-raises at its end, if any.

      if FINISHED in flag: return self
      flag |= FINISHED                               # "mark the flag early"
      if self.invalid and opts['is_build_models'] and self.logic is not None:
          try: self.models = frozenset(self._gen_models())      # _check_timeout() per open branch:
          except ProofTimeoutError as err: timeouterr = err     #   TIMED_OUT, finish() (no-op), raise
      if TIMED_OUT not in flag: self.tree = Tree.make(self)
      self.stats = ...; emit AFTER_FINISH
      if timeouterr: raise timeouterr -/
def finishCore (s : State) (mclk : Nat) : State × Option Exc :=
  if s.finished then (s, none) else
  let wantModels := wantModels s
  let mTimeout := wantModels && clockExceeded s mclk
  let timedOut := s.timedOut || mTimeout
  ({ s with finished := true
            timedOut := timedOut
            modelsBuilt := if wantModels && !mTimeout then true else s.modelsBuilt
            treeBuilt := if !timedOut then true else s.treeBuilt
            statsBuilt := true },
   if mTimeout then some .timeout else none)

/-- the environment's part of one `step()` -/
structure StepIn where
  clk       : Nat          -- timer reading at the check at the start of step()
  next      : Nat → Bool   -- does next() return an entry, as a function of len(history)
  openAfter : Bool         -- len(self.open) > 0 after the entry was applied
  mclk      : Nat          -- see finishCore

inductive StepRes where
  | entry | none | raised (e : Exc)
  deriving DecidableEq, Repr, Inhabited

/-- `step()`

      if FINISHED in flag: return
      entry = None
      self._check_timeout()            # HAS_TIME_LIMIT and elapsed > timeout: TIMED_OUT, finish(), raise
      if not self._is_max_steps_exceeded():
          entry = self.next()          # `for branch in self.open` — no open branch, no entry
          if entry is None: flag &= ~PREMATURE
      if entry is not None: entry.rule.apply(entry.target)   # AFTER_RULE_APPLY: history.append; STARTED
      else: self.finish()
      return entry -/
def stepCore (s : State) (i : StepIn) : State × StepRes :=
  if s.finished then (s, .none) else
  if clockExceeded s i.clk then
    -- finish()'s own re-raise (model timeout) is the same class as the raise that follows it
    ((finishCore { s with timedOut := true } i.mclk).1, .raised .timeout)
  else
  let exceeded := maxStepsExceeded s
  let entry := !exceeded && (s.hasOpen && i.next s.histLen)
  if entry then
    ({ s with histLen := s.histLen + 1, started := true, hasOpen := i.openAfter }, .entry)
  else
    let r := finishCore { s with premature := if exceeded then s.premature else false } i.mclk
    (r.1, match r.2 with | some e => .raised e | Option.none => .none)

inductive Out where
  | entry                -- step() returned a StepEntry
  | none                 -- step() returned None
  | self                 -- finish()/build()/build_trunk() returned, a setter completed
  | raised (e : Exc)
  | exhausted            -- build(): the supplied step inputs ran out (never sent by the harness)
  deriving DecidableEq, Repr, Inhabited

def StepRes.out : StepRes → Out
  | .entry => .entry | .none => .none | .raised e => .raised e

/-- `build()`: `for _ in self.stepiter(): pass` — step() until it returns None -/
def buildLoop (s : State) : List StepIn → State × Out
  | [] => if s.finished then (s, .self) else (s, .exhausted)
  | i :: is =>
    match stepCore s i with
    | (s', .entry) => buildLoop s' is
    | (s', .none) => (s', .self)
    | (s', .raised e) => (s', .raised e)

/-- `build_trunk()` -/
def buildTrunkCore (s : State) : State × Out :=
  if s.trunkBuilt then (s, .raised .illegalState) else
  if s.arg.isNone then (s, .raised .illegalState) else
  if s.logic.isNone then (s, .raised .illegalState) else
  if s.started then (s, .raised .illegalState) else
  -- self.branch() (first AFTER_BRANCH_ADD locks the rules), System.build_trunk, flags
  ({ s with hasBranch := true, rulesLocked := true, hasOpen := true,
            trunkBuilt := true, started := true }, .self)

inductive Op where
  | step (i : StepIn)
  | finish (mclk : Nat)
  | build (is : List StepIn)
  | setArgument (a : Nat)
  | setLogic (l : Nat)
  | buildTrunk
  | addBranch      -- tab.branch() called by the user
  | rulesMutate    -- rules.append/extend/clear, rules.groups.create/append/extend/clear, group.append/extend/clear
  | rulesLock      -- rules.lock()

def exec (s : State) : Op → State × Out
  | .step i => let r := stepCore s i; (r.1, r.2.out)
  | .finish mclk =>
    let r := finishCore s mclk
    (r.1, match r.2 with | some e => .raised e | none => .self)
  | .build is => buildLoop s is
  | .setArgument a =>
    if s.started then (s, .raised .illegalState) else
    let s := { s with arg := some a }
    if s.logic.isSome && s.opts.autoBuildTrunk then buildTrunkCore s else (s, .self)
  | .setLogic l =>
    if s.started then (s, .raised .illegalState) else
    -- self.rules.clear() is wrapped by `locking`
    if s.rulesLocked then (s, .raised .illegalState) else
    let s := { s with logic := some l, rules := s.rules + 1 }
    if s.arg.isSome && s.opts.autoBuildTrunk then buildTrunkCore s else (s, .self)
  | .buildTrunk => buildTrunkCore s
  | .addBranch => ({ s with hasBranch := true, rulesLocked := true, hasOpen := true }, .self)
  | .rulesMutate =>
    if s.rulesLocked then (s, .raised .illegalState) else ({ s with rules := s.rules + 1 }, .self)
  | .rulesLock =>
    if s.rulesLocked then (s, .raised .illegalState) else ({ s with rulesLocked := true }, .self)

def run (s : State) : List Op → State
  | [] => s
  | op :: ops => run (exec s op).1 ops

/-- the outputs of the operations, in order -/
def outs (s : State) : List Op → List Out
  | [] => []
  | op :: ops => (exec s op).2 :: outs (exec s op).1 ops

/-- the states after each operation, in order -/
def trace (s : State) : List Op → List State
  | [] => []
  | op :: ops => (exec s op).1 :: trace (exec s op).1 ops

/-! ### vocabulary of the property statements (Props/C17.lean) -/

/-- reachable from a freshly constructed tableau by finitely many public calls, each with
    arbitrary environment inputs -/
def Reachable (s : State) : Prop := ∃ o ops, s = run (init o) ops

/-- the operation takes next()'s answers from the chooser `ch` -/
def UsesChooser (ch : Nat → Bool) : Op → Prop
  | .step i => i.next = ch
  | .build is => ∀ i ∈ is, i.next = ch
  | _ => True

/-- a proof search of natural length `n`: next() yields an entry exactly while fewer than `n`
    steps are recorded -/
def natural (n : Nat) : Nat → Bool := fun k => decide (k < n)

/-- forget the step limit (the `max_steps` option and the HAS_STEP_LIMIT bit) -/
def eraseLimit (s : State) : State :=
  { s with opts := { s.opts with maxSteps := none }, hasStepLimit := false }

end Ptx.Tab.Life
