/-
  Ptx.Tab.Tree — the bookkeeping a `Tableau` object keeps next to its branches, and the tree it
  builds when it finishes.  Core Lean only (compiled into the driver).

  Part 1, `Book`: the calculus state (`Tableau = List Branch`, Ptx/Tab/Calculus.lean) together with
  what the listeners of pytableaux/proof/tableaux.py `Tableau.__listen_on` maintain:

      history                         after_rule_apply:  history.append(entry)
      stat[branch] STEP_ADDED/PARENT  add_branch
      stat[branch] STEP_CLOSED/CLOSED after_close          (+ opens.remove(branch))
      stat[branch][NODES][node]       after_node_add (STEP_ADDED, node.step), after_tick (STEP_TICKED)
      open                            add_branch: opens.append(branch) unless closed

  Node identity.  Python nodes are compared by identity (`Node.__eq__` is `is`).  A node object is
  created by exactly one `Branch.append` on exactly one branch at one position and is shared by the
  copies made of that branch afterwards (`Branch.copy` copies the node list).  Copies keep positions.
  So the identity of the node at position `p` of a branch is the pair (`orig`, `p`) where `orig` is
  the index of the branch it was appended to; two nodes at the SAME position are the same object
  iff their `orig` agree.  `Tree._build` only ever compares nodes at equal positions.

  Part 2, `Tree.build`: mirror of `Tableau.Tree._build / _build_leaf / _build_branches`, with the
  Python exception paths (`IndexError` of `b[depth]`, `KeyError` of a missing stat record,
  `TypeError` of comparing the non-integer default) as explicit outcomes, and independent
  recomputations (`leafCount`, `nodeTotal`, `size`, `leafPaths`) to state theorems against.

  Part 3, `Book.stats`: mirror of `Tableau._compute_stats` as far as it is observable counts.
-/
import Ptx.Tab.Calculus
namespace Ptx

/-! ## Part 1: the event record -/

/-- a node object on a branch: which branch it was appended to (identity, see above), its content,
    and `node.step` (written by `after_node_add`) -/
structure NObj where
  orig : Nat
  node : Node
  step : Nat
  deriving DecidableEq, Repr, Inhabited

/-- `stat[branch]` plus the node objects of the branch -/
structure BRec where
  /-- the node objects, parallel to `Branch.nodes` of the calculus state -/
  objs : List NObj
  /-- how many nodes the branch had when it was added to the tableau as a copy of its parent
      (0 for the trunk branch).  Nodes at positions `≥ inherited` were appended to this very branch;
      exactly they have a `STEP_ADDED` record in `stat[branch][NODES]`. -/
  inherited : Nat := 0
  /-- `stat[branch][STEP_ADDED]` -/
  stepAdded : Nat := 0
  /-- `stat[branch][STEP_CLOSED]`, present iff `Flag.CLOSED in stat[branch][FLAGS]` -/
  stepClosed : Option Nat := none
  /-- `stat[branch][PARENT]` as a branch index -/
  parent : Option Nat := none
  /-- `stat[branch][NODES][node][STEP_TICKED]` as (position, step), in the order of the tick events -/
  ticks : List (Nat × Nat) := []
  deriving DecidableEq, Repr, Inhabited

namespace BRec
/-- `Flag.CLOSED in tab.stat(branch, FLAGS)` -/
def closed (r : BRec) : Bool := r.stepClosed.isSome
/-- `tab.stat(branch, node, STEP_TICKED)` where a record exists -/
def tickedAt (r : BRec) (p : Nat) : Option Nat := r.ticks.lookup p
/-- is there a record `stat[branch][NODES][node]` for the node at position `p`
    (created by `after_node_add` on this branch or by `after_tick` on this branch) -/
def hasRecord (r : BRec) (p : Nat) : Bool := r.inherited ≤ p || (r.tickedAt p).isSome
/-- `tab.stat(branch, node, STEP_ADDED)` as an integer: only for nodes appended to this branch -/
def addedAt (r : BRec) (p : Nat) : Option Nat :=
  if r.inherited ≤ p then r.objs[p]?.map (·.step) else none
end BRec

structure Book where
  /-- the branches (calculus state) -/
  tab : Tableau
  /-- `stat`, one record per branch, parallel to `tab` -/
  recs : List BRec
  /-- `Tableau.open`: indices of the branches in the open view, in its order -/
  opens : List Nat
  /-- `Tableau.history` -/
  history : List Step
  deriving Repr, Inhabited

namespace Book

/-- `Tableau.current_step` once the trunk is built: `len(history) + 1` -/
def currentStep (bk : Book) : Nat := bk.history.length + 1

/-- The state right after `build_trunk`: one branch without parent, added and filled at step 0
    (`current_step` is 0 until `TRUNK_BUILT` is set), in the open view.
    Precondition (holds for `trunk L arg`): no closure flag among the trunk nodes. -/
def init (nodes : List Node) : Book :=
  { tab := [{ nodes := nodes }],
    recs := [{ objs := nodes.map (fun n => ⟨0, n, 0⟩) }],
    opens := [0],
    history := [] }

end Book

/-- the nodes a branch gained: `new` is `old` (or a copy of `old`) after `Branch.extend` -/
def gained (old new : Branch) : List Node := new.nodes.drop old.nodes.length

/-- did the branch receive a closure flag (→ `Branch.Events.AFTER_CLOSE`) -/
def closesNow (old new : Branch) : Bool := (gained old new).any Node.isClosure

/-- `Branch.append` raises `IllegalState('Already closed')` when a node follows a closure flag -/
def appendsAfterClosure (old new : Branch) : Bool := (gained old new).dropLast.any Node.isClosure

/-- the tick events of the step on one branch: positions ticked now that were not ticked on `old`
    (`Branch.tick` emits `AFTER_TICK` only `if not self.is_ticked(node)`; a copy starts with the
    ticks of its parent).  The record is positional, so only ticks of nodes that are on the branch
    enter it (`grow`); Python ticks node objects, a tick of a node that is not on the branch would
    leave a stat entry that no position of the branch refers to. -/
def newTicks (old new : Branch) : List Nat := new.ticked.filter (fun n => !old.ticked.contains n)

/-- `add_branch`: `if not branch.closed: opens.append(branch)` for the new branches (numbered from `j`),
    minus those that received a closure flag in the same application (`after_close`: `opens.remove`) -/
def kidOpens (old : Branch) : Nat → List Branch → List Nat
  | _, [] => []
  | j, b :: bs => (if old.closed || closesNow old b then [] else [j]) ++ kidOpens old (j + 1) bs

namespace BRec

/-- the listeners `after_node_add`, `after_close`, `after_tick` of branch number `me` during the
    application with step number `cur` -/
def grow (r : BRec) (cur me : Nat) (old new : Branch) : BRec :=
  { r with
    objs := r.objs ++ (gained old new).map (fun n => ⟨me, n, cur⟩),
    stepClosed := if closesNow old new then some cur else r.stepClosed,
    ticks := r.ticks ++ ((newTicks old new).filter (· < new.nodes.length)).map (fun n => (n, cur)) }

/-- `add_branch` for `tab.branch(parent)`: the copy shares the parent's node objects; its stat record
    starts empty (`BranchStat` defaults) with `STEP_ADDED = current_step`, `PARENT = parent` -/
def fork (r : BRec) (cur pi : Nat) : BRec :=
  { objs := r.objs, inherited := r.objs.length, stepAdded := cur, stepClosed := none,
    parent := some pi, ticks := [] }

end BRec

inductive StepOut where
  | ok (bk : Book)
  /-- the calculus rejects the step -/
  | illegal
  /-- a Python exception path: `IllegalState` (`Branch.append` on a closed branch),
      `MissingValue` (`opens.remove` of a branch that is not in the open view) -/
  | raises (what : String)
  /-- the record list is out of step with the branch list (never from `Book.init`, see `TabInv`) -/
  | broken
  deriving Repr, Inhabited

/-- the state, if the step was accepted and nothing was raised -/
def StepOut.book? : StepOut → Option Book
  | .ok bk => some bk
  | _ => none

namespace Book

/-- what the listeners do during one rule application (`i` the target branch, `old` its state before,
    `r` its record, `new` its state after, `t'` the branches after; `AdzHelper._apply`:
    children are created as copies of the target *before* it is extended).
    `opens.remove(branch)` of the linqset removes the one entry of the branch (entries are unique);
    written as a filter here; `Book.step` answers `raises "MissingValue"` when there is no entry. -/
def record (bk : Book) (s : Step) (i : Nat) (old : Branch) (r : BRec) (new : Branch) (t' : Tableau) : Book :=
  let cur := bk.currentStep
  let n := bk.tab.length
  let kids := t'.drop n
  { tab := t',
    recs := bk.recs.set i (r.grow cur i old new) ++
              kids.mapIdx (fun k b => (r.fork cur i).grow cur (n + k) old b),
    opens := (if closesNow old new then bk.opens.filter (· != i) else bk.opens) ++ kidOpens old n kids,
    history := bk.history ++ [s] }

/-- one rule application: the calculus step with the listeners' bookkeeping -/
def step (L : LogicData) (bk : Book) (s : Step) : StepOut :=
  match applyStep L bk.tab s with
  | none => .illegal
  | some t' =>
    match bk.tab[s.branch]?, t'[s.branch]?, bk.recs[s.branch]? with
    | some old, some new, some r =>
        if (new :: t'.drop bk.tab.length).any (appendsAfterClosure old) then .raises "IllegalState"
        else if closesNow old new && !bk.opens.contains s.branch then .raises "MissingValue"
        else .ok (bk.record s s.branch old r new t')
    | _, _, _ => .broken

/-- replay a history -/
def run (L : LogicData) : Book → List Step → StepOut
  | bk, [] => .ok bk
  | bk, s :: ss =>
    match bk.step L s with
    | .ok bk' => run L bk' ss
    | o => o

/-- `bk'` is reached from `bk` by applying exactly the steps `ss`, in order -/
inductive Reach (L : LogicData) : Book → List Step → Book → Prop
  | refl (bk) : Reach L bk [] bk
  | step {bk bk1 bk2 s ss} : bk.step L s = .ok bk1 → Reach L bk1 ss bk2 → Reach L bk (s :: ss) bk2

/-! ### the public views the property talks about -/

/-- the unclosed branches, by index, in branch order -/
def isOpenAt (t : Tableau) (i : Nat) : Bool := match t[i]? with | some b => !b.closed | none => false
def unclosed (bk : Book) : List Nat := (List.range' 0 bk.tab.length).filter (isOpenAt bk.tab)

/-- `len(branch)` for every branch -/
def lengths (bk : Book) : List Nat := bk.tab.map (·.nodes.length)

end Book

/-! ## Part 2: the tree -/

/-- what `Tree._build` reads of one branch: its index (`branch.id` canonicalised) and its record -/
structure TB where
  idx : Nat
  r : BRec
  deriving DecidableEq, Repr, Inhabited

namespace TB
def objs (b : TB) : List NObj := b.r.objs
/-- identity of the node at depth `d` (`branch[depth]`, an `IndexError` if absent) -/
def keyAt (b : TB) (d : Nat) : Option Nat := b.r.objs[d]?.map (·.orig)
end TB

def Book.tbs (bk : Book) : List TB := bk.recs.mapIdx (fun i r => ⟨i, r⟩)

inductive TreeErr where
  /-- `b[depth]` in `_build_branches` for a branch that ends above `depth` -/
  | indexError
  /-- `tab.stat(branch, node, …)` without a record for that node on that branch -/
  | keyError
  /-- ordering the default `Flag(0)` of `STEP_ADDED` against a step number / `min` with `None` -/
  | typeError
  /-- model artefact: recursion fuel exhausted (never with the fuel `Tree.build` supplies) -/
  | fuel
  deriving DecidableEq, Repr, Inhabited

/-- the scalar attributes of one `Tableau.Tree` structure -/
structure TInfo where
  root : Bool := false
  nodes : List NObj := []
  ticksteps : List (Option Nat) := []
  leaf : Bool := false
  closed : Bool := false
  open_ : Bool := false
  left : Nat := 0
  right : Nat := 0
  dnc : Nat := 0            -- descendant_node_count
  snc : Nat := 0            -- structure_node_count
  depth : Nat := 0
  hasOpen : Bool := false
  hasClosed : Bool := false
  closedStep : Option Nat := none
  step : Option Nat := none
  width : Nat := 0
  branchId : Option Nat := none
  isOnlyBranch : Bool := false
  branchStep : Option Nat := none
  distinctNodes : Option Nat := none      -- only on the root
  deriving DecidableEq, Repr, Inhabited

inductive Tree where
  | mk (info : TInfo) (kids : List Tree)
  deriving Repr, Inhabited

namespace Tree
def info : Tree → TInfo | mk i _ => i
def kids : Tree → List Tree | mk _ k => k
end Tree

/-- first occurrences, in order (what iterating a `qset` filled by `add` yields) -/
def dedupR : List Nat → List Nat
  | [] => []
  | x :: xs => x :: (dedupR xs).filter (· != x)

/-- state of the `while True` loop of `_build` -/
structure Scan where
  nodes : List NObj := []
  ticksteps : List (Option Nat) := []
  step : Option Nat := none
  hasOpen : Bool := false
  hasClosed : Bool := false
  /-- `depth` when the loop breaks -/
  depth : Nat := 0
  /-- the `nodes` qset when the loop breaks: distinct node identities at `depth` -/
  last : List Nat := []
  deriving Repr, Inhabited

/-- the branches with a node at depth `d`, with that node (`if len(branch) <= depth: continue`) -/
def presentAt (brs : List TB) (d : Nat) : List (TB × NObj) :=
  brs.filterMap (fun b => b.r.objs[d]?.map (fun o => (b, o)))

/-- the `while True` loop of `_build`, from depth `d` -/
def scanF : Nat → List TB → Nat → Scan → Except TreeErr Scan
  | 0, _, _, _ => .error .fuel
  | f+1, brs, d, acc =>
    let present := presentAt brs d
    let acc := { acc with hasClosed := acc.hasClosed || present.any (·.1.r.closed),
                          hasOpen := acc.hasOpen || present.any (!·.1.r.closed) }
    match dedupR (present.map (·.2.orig)), present with
    | [_], (sp, o) :: _ =>
        -- `branch = specimen`: the first branch with a node at depth; its stat record is consulted
        if !sp.r.hasRecord d then .error .keyError
        else if d < sp.r.inherited then .error .typeError   -- STEP_ADDED is the default Flag(0), not a number
        else
          scanF f brs (d + 1)
            { acc with nodes := acc.nodes ++ [o], ticksteps := acc.ticksteps ++ [sp.r.tickedAt d],
                       step := match acc.step with
                               | none => some o.step
                               | some s => if o.step < s then some o.step else some s }
    | ks, _ => .ok { acc with depth := d, last := ks }

def maxLen (brs : List TB) : Nat := brs.foldl (fun m b => max m b.r.objs.length) 0

/-- `for node in nodes: child = _build(deque(b for b in branches if b[depth] == node), depth)`,
    threading `memo['pos']` and `memo['distinct_nodes']` -/
def kidsWith (f : List TB → Nat → Nat → Except TreeErr (Tree × Nat × Nat)) :
    List (List TB) → Nat → Nat → Except TreeErr (List Tree × Nat × Nat)
  | [], pos, dist => .ok ([], pos, dist)
  | g :: gs, pos, dist =>
    match f g (pos + 1) dist with
    | .error e => .error e
    | .ok (c, p1, d1) =>
      match kidsWith f gs p1 d1 with
      | .error e => .error e
      | .ok (cs, p2, d2) => .ok (c :: cs, p2, d2)

/-- the branch groups of `_build_branches`, one per distinct node at depth `d`, in `qset` order -/
def groupsAt (brs : List TB) (d : Nat) (keys : List Nat) : List (List TB) :=
  keys.map (fun k => brs.filter (fun b => b.keyAt d == some k))

def optMin : Option Nat → Nat → Option Nat
  | none, x => some x
  | some m, x => some (min m x)

/-- `_build(tab, branches, depth, memo)`; `sd` = `memo['depth']`, `pos` = the `left` value of this
    structure, `dist` = `memo['distinct_nodes']` on entry.  Returns the structure with
    `memo['pos']`, `memo['distinct_nodes']` on exit. -/
def buildF : Nat → List TB → (d sd pos dist : Nat) → (root : Bool) → Except TreeErr (Tree × Nat × Nat)
  | 0, _, _, _, _, _, _ => .error .fuel
  | f+1, brs, d, sd, pos, dist, root =>
    match scanF (maxLen brs + 1) brs d {} with
    | .error e => .error e
    | .ok sc =>
      let dist1 := dist + sc.nodes.length
      match brs with
      | [b] =>
          -- _build_leaf
          let closed := b.r.closed
          let info : TInfo :=
            { root := root, nodes := sc.nodes, ticksteps := sc.ticksteps, step := sc.step, depth := sd,
              left := pos, right := pos + 1,
              closed := closed, open_ := !closed,
              closedStep := if closed then b.r.stepClosed else none,
              hasClosed := sc.hasClosed || closed, hasOpen := sc.hasOpen || !closed,
              width := 1, leaf := true, branchId := some b.idx, isOnlyBranch := sd == 0,
              dnc := 0, snc := sc.nodes.length,
              distinctNodes := if root then some dist1 else none }
          .ok (.mk info [], pos + 1, dist1)
      | _ =>
          -- _build_branches
          if !sc.last.isEmpty && brs.any (fun b => b.r.objs.length ≤ sc.depth) then .error .indexError
          else
            match kidsWith (fun g p di => buildF f g sc.depth (sd + 1) p di false)
                    (groupsAt brs sc.depth sc.last) pos dist1 with
            | .error e => .error e
            | .ok (kids, pos', dist') =>
              if kids.any (fun c => c.info.step.isNone) then .error .typeError     -- min(branch_step, None)
              else
                let dnc := (kids.map (fun c => c.info.nodes.length + c.info.dnc)).sum
                let info : TInfo :=
                  { root := root, nodes := sc.nodes, ticksteps := sc.ticksteps, step := sc.step, depth := sd,
                    left := pos, right := pos' + 1,
                    hasClosed := sc.hasClosed, hasOpen := sc.hasOpen,
                    width := (kids.map (·.info.width)).sum,
                    dnc := dnc, snc := dnc + sc.nodes.length,
                    branchStep := kids.foldl (fun m c => match c.info.step with | some s => optMin m s | none => m) none,
                    distinctNodes := if root then some dist' else none }
                .ok (.mk info kids, pos' + 1, dist')

/-- `Tree.make(tab)` -/
def Tree.build (bk : Book) : Except TreeErr Tree :=
  match buildF (bk.recs.length + 1) bk.tbs 0 0 1 0 true with
  | .error e => .error e
  | .ok (t, _, _) => .ok t

/-! ### independent recomputations -/

mutual
/-- number of structures -/
def Tree.size : Tree → Nat
  | .mk _ kids => 1 + Tree.sizeL kids
def Tree.sizeL : List Tree → Nat
  | [] => 0
  | c :: cs => c.size + Tree.sizeL cs
end

mutual
/-- number of leaf structures at or below -/
def Tree.leafCount : Tree → Nat
  | .mk i kids => (if i.leaf then 1 else 0) + Tree.leafCountL kids
def Tree.leafCountL : List Tree → Nat
  | [] => 0
  | c :: cs => c.leafCount + Tree.leafCountL cs
end

mutual
/-- number of nodes in the structure and all structures below -/
def Tree.nodeTotal : Tree → Nat
  | .mk i kids => i.nodes.length + Tree.nodeTotalL kids
def Tree.nodeTotalL : List Tree → Nat
  | [] => 0
  | c :: cs => c.nodeTotal + Tree.nodeTotalL cs
end

mutual
/-- the leaves with their root-to-leaf node paths: (branch id, nodes from this structure down) -/
def Tree.leafPaths : Tree → List (Option Nat × List NObj)
  | .mk i kids =>
    (if i.leaf then [(i.branchId, i.nodes)] else []) ++
      (Tree.leafPathsL kids).map (fun (b, p) => (b, i.nodes ++ p))
def Tree.leafPathsL : List Tree → List (Option Nat × List NObj)
  | [] => []
  | c :: cs => c.leafPaths ++ Tree.leafPathsL cs
end

mutual
/-- every node of every structure with the position it has on the branches: (position, identity);
    `off` = position of the structure's first node -/
def Tree.placed : Nat → Tree → List (Nat × Nat)
  | off, .mk i kids => i.nodes.mapIdx (fun p o => (off + p, o.orig)) ++ Tree.placedL (off + i.nodes.length) kids
def Tree.placedL : Nat → List Tree → List (Nat × Nat)
  | _, [] => []
  | off, c :: cs => c.placed off ++ Tree.placedL off cs
end

/-- the node objects on the branches, as (position, identity), with repetitions (a node shared by
    several branches occurs once per branch) -/
def Book.objIds (bk : Book) : List (Nat × Nat) :=
  bk.recs.flatMap (fun r => r.objs.mapIdx (fun p o => (p, o.orig)))

mutual
/-- every structure's counters are the recomputed ones, depths count ancestors, left/right are the
    pre-order numbering starting at `left` -/
def Tree.CountsOK : Tree → Prop
  | .mk i kids =>
    i.width = (Tree.mk i kids).leafCount ∧
    i.dnc = Tree.nodeTotalL kids ∧
    i.snc = (Tree.mk i kids).nodeTotal ∧
    i.right = i.left + 2 * (Tree.mk i kids).size - 1 ∧
    Tree.CountsOKL (i.depth + 1) (i.left + 1) kids
def Tree.CountsOKL : Nat → Nat → List Tree → Prop
  | _, _, [] => True
  | d, l, c :: cs => c.CountsOK ∧ c.info.depth = d ∧ c.info.left = l ∧ c.info.root = false ∧
      Tree.CountsOKL d (c.info.right + 1) cs
end

/-! ## Part 3: statistics -/

structure Stats where
  result : String
  branches : Nat
  openBranches : Nat
  closedBranches : Nat
  steps : Nat
  distinctNodes : Option Nat
  deriving DecidableEq, Repr, Inhabited

/-- `Tableau._compute_stats` (counts only; durations are outside the model).  `completed`: the
    `FINISHED` flag without `PREMATURE` (lifecycle, C17); an argument is always present here, so
    `_result_word` is Valid / Invalid when completed, `Unfinished` otherwise. -/
def Book.stats (bk : Book) (completed : Bool) (tree : Option Tree) : Stats :=
  { result := if completed then (if bk.opens.length == 0 then "Valid" else "Invalid") else "Unfinished",
    branches := bk.tab.length,
    openBranches := bk.opens.length,
    closedBranches := bk.tab.length - bk.opens.length,
    steps := bk.history.length,
    distinctNodes := match tree with | some t => t.info.distinctNodes | none => none }

end Ptx
