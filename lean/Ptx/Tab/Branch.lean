/-
  Ptx.Tab.Branch — the bookkeeping of a tableau `Branch` (proof/common.py) for fresh constants
  and fresh worlds.  Core Lean only (compiled into the driver).

  Mirrored code:
    Branch.__init__      l.253-270   empty sets, _nextworld = 0, _nextconst = Constant.first()
    Branch.copy          l.272-300   every container copied, the two counters copied
    Branch.append        l.377-414   closed → IllegalState; qset.append (duplicate object →
                                     DuplicateValueError, before anything else changes);
                                     constants / _nextconst; worlds / _nextworld
    Branch.tick          l.430-444
    new_constant / new_world         return the counters
    Constant ordering (lang/lex.py): sort_tuple = (rank, subscript, index);
    CoordsItem.next: index < maxi(=3) → index+1, else index 0, subscript+1
    Sentence.constants: Atomic ∅; Predicated: the params that are Constants; Quantified: of the
    body; Operated: union over the operands.

  Python nodes have identity semantics (`__eq__` is `is`): the model carries an object identity
  (a Nat chosen by the caller) next to the content of each node; two nodes with equal content and
  different identities are different nodes, as in the implementation.
  Not modelled: the node index (`_index`), event emission, the `model` attribute, `parent`/`origin`,
  node kinds without counterpart in `Ptx.Node` (a bare WorldNode / DesignationNode), negative worlds.
-/
import Ptx.Tab.Node
namespace Ptx.Tab

/-- `Constant(index, subscript)` -/
structure Const where
  index : Nat
  sub   : Nat
  deriving DecidableEq, Repr, Inhabited

namespace Const
/-- the order of lexical items of one type: by (subscript, index) -/
def lt (a b : Const) : Prop := a.sub < b.sub ∨ (a.sub = b.sub ∧ a.index < b.index)
instance : LT Const := ⟨lt⟩
instance (a b : Const) : Decidable (a < b) :=
  inferInstanceAs (Decidable (a.sub < b.sub ∨ (a.sub = b.sub ∧ a.index < b.index)))
theorem lt_def (a b : Const) : a < b ↔ a.sub < b.sub ∨ (a.sub = b.sub ∧ a.index < b.index) := Iff.rfl

/-- `Constant.first()` -/
def first : Const := ⟨0, 0⟩

/-- `CoordsItem.next()` with `Constant.TYPE.maxi = 3` -/
def next (c : Const) : Const :=
  if c.index < 3 then ⟨c.index + 1, c.sub⟩ else ⟨0, c.sub + 1⟩

/-- `max(cons)` for a non-empty collection `c :: cs`: keep the current maximum unless the next
    item is greater -/
def maxOf (c : Const) (cs : List Const) : Const :=
  cs.foldl (fun m x => if m < x then x else m) c
end Const

/-- the constants among the parameters of a predicated sentence, in order -/
def paramConsts : List Param → List Const
  | [] => []
  | .const i s :: r => ⟨i, s⟩ :: paramConsts r
  | .var _ _ :: r => paramConsts r

/-- `Sentence.constants` (as a list; duplicates are harmless, it is used as a set) -/
def sentConsts : Sent → List Const
  | .atom _ _ => []
  | .pred _ ps => paramConsts ps
  | .quant _ _ _ b => sentConsts b
  | .op1 _ a => sentConsts a
  | .op2 _ a b => sentConsts a ++ sentConsts b

/-- set-style update of a list used as a set: `acc.update(xs)` -/
def insertAll {α} [DecidableEq α] (acc : List α) (xs : List α) : List α :=
  xs.foldl (fun a x => if x ∈ a then a else a ++ [x]) acc

structure BranchState where
  entries   : List (Nat × Node)   -- `_nodes` (a qset): object identity and content, in order
  ticked    : List Nat            -- `_ticked` (identities)
  consts    : List Const          -- `_constants`
  nextConst : Const               -- `_nextconst`
  worlds    : List Nat            -- `_worlds`
  nextWorld : Nat                 -- `_nextworld`
  deriving DecidableEq, Repr, Inhabited

inductive BranchErr where
  | illegalState    -- errors.IllegalStateError ('Already closed')
  | duplicate       -- errors.DuplicateValueError (the node object is already on the branch)
  deriving DecidableEq, Repr, Inhabited

namespace BranchState

/-- `Branch()` -/
def empty : BranchState := ⟨[], [], [], Const.first, [], 0⟩

/-- the nodes on the branch, in order -/
def nodes (b : BranchState) : List Node := b.entries.map (·.2)

/-- `closed`: `len(self) and isinstance(self[-1], ClosureNode)` -/
def closed (b : BranchState) : Bool :=
  match b.entries.getLast? with
  | some (_, n) => n.isClosure
  | none => false

def newConstant (b : BranchState) : Const := b.nextConst
def newWorld (b : BranchState) : Nat := b.nextWorld

/-- the part of `append` for a SentenceNode:
      if len(cons := s.constants):
          if (maxcon := max(cons)) >= self._nextconst: self._nextconst = maxcon.next()
          self._constants.update(cons) -/
def addConsts (b : BranchState) (cons : List Const) : BranchState :=
  match cons with
  | [] => b
  | c :: cs =>
    let maxcon := Const.maxOf c cs
    { b with nextConst := if maxcon < b.nextConst then b.nextConst else maxcon.next
             consts := insertAll b.consts cons }

/-- the part of `append` for a Modal node:
      worlds = frozenset(node.worlds())
      if len(worlds): maxworld = max(worlds); if maxworld >= nextworld: nextworld = maxworld + 1
                      self._worlds.update(worlds) -/
def addWorlds (b : BranchState) (ws : List Nat) : BranchState :=
  match ws with
  | [] => b
  | w :: r =>
    let maxworld := r.foldl Nat.max w
    { b with nextWorld := if maxworld < b.nextWorld then b.nextWorld else maxworld + 1
             worlds := insertAll b.worlds ws }

/-- `append(node)`; `id` is the identity of the node object -/
def append (b : BranchState) (id : Nat) (n : Node) : Except BranchErr BranchState :=
  if b.closed then .error .illegalState
  else if b.entries.any (·.1 == id) then .error .duplicate
  else
    let b := { b with entries := b.entries ++ [(id, n)] }
    let b := match n with
      | .sent s _ _ => b.addConsts (sentConsts s)
      | _ => b
    .ok (b.addWorlds n.worlds)

/-- `copy()`: all containers are copied, the counters carried over — as a value, the same state -/
def copy (b : BranchState) : BranchState := b

/-- `tick(node)` -/
def tick (b : BranchState) (id : Nat) : BranchState :=
  if id ∈ b.ticked then b else { b with ticked := b.ticked ++ [id] }

end BranchState

/-! ### a forest of branches and histories of operations on it -/

inductive BranchOp where
  | new                                   -- Branch()
  | append (b : Nat) (id : Nat) (n : Node) -- branches[b].append(node #id)
  | copy (b : Nat)                        -- branches.append(branches[b].copy())
  | tick (b : Nat) (id : Nat)
  deriving DecidableEq, Repr

inductive OpOut where
  | ok
  | err (e : BranchErr)
  | noBranch            -- index out of range (harness artefact, never sent)
  deriving DecidableEq, Repr

abbrev Forest := List BranchState

def execOp (f : Forest) : BranchOp → Forest × OpOut
  | .new => (f ++ [BranchState.empty], .ok)
  | .append b id n =>
    match f[b]? with
    | none => (f, .noBranch)
    | some bs =>
      match bs.append id n with
      | .ok bs' => (f.set b bs', .ok)
      | .error e => (f, .err e)
  | .copy b =>
    match f[b]? with
    | none => (f, .noBranch)
    | some bs => (f ++ [bs.copy], .ok)
  | .tick b id =>
    match f[b]? with
    | none => (f, .noBranch)
    | some bs => (f.set b (bs.tick id), .ok)

/-- the forest after a history, starting from one fresh branch -/
def runFrom (f : Forest) : List BranchOp → Forest
  | [] => f
  | op :: ops => runFrom (execOp f op).1 ops

def run (ops : List BranchOp) : Forest := runFrom [BranchState.empty] ops

/-! ### the code before commit c02e76b (kept for the record: it is *not* fresh) -/

/-- `if self._nextconst in cons: self._nextconst = max(cons).next()` -/
def BranchState.addConstsLegacy (b : BranchState) (cons : List Const) : BranchState :=
  match cons with
  | [] => b
  | c :: cs =>
    { b with nextConst := if b.nextConst ∈ cons then (Const.maxOf c cs).next else b.nextConst
             consts := insertAll b.consts cons }

/-! ### vocabulary of the property statements (Props/C06.lean): an independent walk

  Occurrence is defined on the syntax, not through `sentConsts` / `Node.worlds` / the cached
  fields; `Proofs/TabBranch.lean` proves that the cached sets coincide with it. -/

/-- the constant `c` occurs in the sentence -/
inductive ConstOccurs (c : Const) : Sent → Prop where
  | pred (p : Pred) (ps : List Param) : Param.const c.index c.sub ∈ ps → ConstOccurs c (.pred p ps)
  | quant (q : Quant) (vi vs : Nat) (b : Sent) : ConstOccurs c b → ConstOccurs c (.quant q vi vs b)
  | op1 (o : Op1) (a : Sent) : ConstOccurs c a → ConstOccurs c (.op1 o a)
  | op2l (o : Op2) (a b : Sent) : ConstOccurs c a → ConstOccurs c (.op2 o a b)
  | op2r (o : Op2) (a b : Sent) : ConstOccurs c b → ConstOccurs c (.op2 o a b)

/-- the constant occurs in the sentence of a node -/
def ConstOnNode (c : Const) : Node → Prop
  | .sent s _ _ => ConstOccurs c s
  | _ => False

/-- the world occurs in a node -/
def WorldOnNode (w : Nat) : Node → Prop
  | .sent _ _ (some v) => w = v
  | .access a b => w = a ∨ w = b
  | _ => False

/-- **Freshness**: what the branch offers as new constant occurs in no sentence on it, what it
    offers as new world occurs in no node on it. -/
def Fresh (b : BranchState) : Prop :=
  (∀ n ∈ b.nodes, ¬ ConstOnNode b.newConstant n) ∧ (∀ n ∈ b.nodes, ¬ WorldOnNode b.newWorld n)

/-- the stronger fact the implementation maintains: the counters are above everything on the branch -/
def AboveAll (b : BranchState) : Prop :=
  (∀ n ∈ b.nodes, ∀ c, ConstOnNode c n → c < b.newConstant) ∧
  (∀ n ∈ b.nodes, ∀ w, WorldOnNode w n → w < b.newWorld)

/-- the cached `constants` / `worlds` sets are exactly what occurs on the branch -/
def CacheExact (b : BranchState) : Prop :=
  (∀ c, c ∈ b.consts ↔ ∃ n ∈ b.nodes, ConstOnNode c n) ∧
  (∀ w, w ∈ b.worlds ↔ ∃ n ∈ b.nodes, WorldOnNode w n)

end Ptx.Tab
