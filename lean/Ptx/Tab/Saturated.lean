/-
  Ptx.Tab.Saturated — "completed means saturated" as a DECIDABLE predicate on a branch of the
  calculus model: no closure rule applies, every compound node has received what its rule adds
  (one whole branch group; for re-applying rules one group per constant / accessible world on the
  branch; for witness rules some witness), the frame rules' closure is on the branch, identity
  substitution is exhausted.  A rule instance counts as done when all its nodes ARE on the branch,
  however they got there.  Executable, core only: the driver evaluates it on the final branches
  of real runs and names the first clause that fails.
-/
import Ptx.Tab.Calculus
namespace Ptx

def dedupNat (xs : List Nat) : List Nat := xs.eraseDups
def dedupPair (xs : List (Nat × Nat)) : List (Nat × Nat) := xs.eraseDups

namespace Branch
def hasAll (b : Branch) (ns : List Node) : Bool := ns.all b.hasNode
def constList (b : Branch) : List (Nat × Nat) := dedupPair b.consts
def worldList (b : Branch) : List Nat := dedupNat b.worlds
def successors (b : Branch) (w : Nat) : List Nat :=
  dedupNat (b.nodes.filterMap fun | .access a c => if a == w then some c else none | _ => none)
def hasQuit (b : Branch) : Bool := b.nodes.any fun | .flag n => n != "closure" | _ => false
end Branch

/-- the node groups a rule produces for compound `whole` at world `w` with witness constant `c` /
    witness world `wo` — instantiation only, no legality conditions -/
def instGroups (whole l0 : Sent) (w : Option Nat) (c : Option (Nat × Nat)) (wo : Option Nat) (r : Rule) :
    Option (List (List Node)) :=
  match r.witness with
  | .none => mapOpt (instAdds whole l0 whole.rhs? whole.qraw whole.qvar w none) r.branches
  | .newConst | .eachConst =>
      match c with
      | some (ci, cs) => mapOpt (instAdds whole (whole.instC ci cs) none whole.qraw whole.qvar w none) r.branches
      | none => none
  | .newWorld | .eachWorld =>
      match wo with
      | some w' => mapOpt (instAdds whole l0 none none whole.qvar w (some w')) r.branches
      | none => none

def groupsDone (b : Branch) (gs : Option (List (List Node))) : Bool :=
  match gs with
  | some gs => gs.any b.hasAll
  | none => false

namespace LogicData
variable (L : LogicData)

/-- the rule for a node's sentence: (rule, compound, first component) -/
def ruleFor (s : Sent) (d : Option Bool) : Option (Rule × Sent × Sent) :=
  match s.decomp with
  | none => none
  | some (sh, ng, whole) =>
    match L.rule? ⟨sh, ng, d⟩, whole.lhs? with
    | some r, some l0 => some (r, whole, l0)
    | _, _ => none

/-- what is missing for one sentence node (empty = nothing) -/
def nodeMissing (b : Branch) (s : Sent) (d : Option Bool) (w : Option Nat) : List String :=
  match L.ruleFor s d with
  | none => []
  | some (r, whole, l0) =>
    if !whole.quantOK L then [] else
    match r.witness with
    | .none =>
        if groupsDone b (instGroups whole l0 w none none r) then [] else ["rule-unapplied " ++ r.name]
    | .newConst =>
        if b.constList.any (fun c => groupsDone b (instGroups whole l0 w (some c) none r)) then []
        else ["witness-constant-missing " ++ r.name]
    | .eachConst =>
        if b.constList.isEmpty then ["no-constant-instance " ++ r.name]
        else (b.constList.filter fun c => !groupsDone b (instGroups whole l0 w (some c) none r)).map
          fun c => s!"constant-instance-missing {r.name} {c.1}.{c.2}"
    | .newWorld =>
        if b.worldList.any (fun w' => groupsDone b (instGroups whole l0 w none (some w') r)) then []
        else ["witness-world-missing " ++ r.name]
    | .eachWorld =>
        match w with
        | none => []
        | some w0 =>
          ((b.successors w0).filter fun w' => !groupsDone b (instGroups whole l0 w none (some w') r)).map
              (fun w' => s!"world-instance-missing {r.name} {w'}")
          ++ (if L.frameRules.contains "Serial" && (b.successors w0).isEmpty then [s!"serial-successor-missing {r.name} {w0}"] else [])

/-- closure applicable on the literal constraints around this node's sentence -/
def closureApplies (b : Branch) (s : Sent) (w : Option Nat) : Bool :=
  L.closure.lookup (b.litSet L s w) == some true || L.closure.lookup (b.litSet L s.base w) == some true

def frameMissing (b : Branch) : List String :=
  let ws := b.worldList
  (if L.frameRules.contains "Reflexive" then (ws.filter fun w => !b.hasAccess w w).map (fun w => s!"frame-reflexive {w}") else [])
  ++ (if L.frameRules.contains "Symmetric" then
        (b.nodes.filterMap fun | .access a c => if b.hasAccess c a then none else some s!"frame-symmetric {a} {c}" | _ => none) else [])
  ++ (if L.frameRules.contains "Transitive" then
        (b.nodes.flatMap fun
          | .access a c => (b.successors c).filterMap fun e => if b.hasAccess a e then none else some s!"frame-transitive {a} {c} {e}"
          | _ => []) else [])

def isSelfIdentity : Node → Bool
  | .sent (.pred p [x, y]) _ _ => p == Pred.identity && x == y
  | _ => false

def identMissing (b : Branch) : List String :=
  if !L.closesSelfIdNeg then [] else
  b.nodes.flatMap fun ni =>
    match ni with
    | .sent (.pred q [_, _]) none _ =>
        if q != Pred.identity then [] else
        b.nodes.filterMap fun np =>
          if np == ni then none else
          match identAdd ni np with
          | some nd => if isSelfIdentity nd || b.hasNode nd then none else some ("identity-substitution-missing " ++ nd.toWire)
          | none => none
    | _ => []

/-- everything an open branch still calls for, as clause descriptions (empty = saturated) -/
def unsaturated (b : Branch) : List String :=
  (b.nodes.zipIdx.flatMap fun (nd, i) =>
    match nd with
    | .sent s d w =>
        (if L.closureApplies b s w then [s!"closure-applicable node={i}"] else [])
        ++ (if L.identCloses nd then [s!"ident-closure-applicable node={i}"] else [])
        ++ (L.nodeMissing b s d w).map (fun m => m ++ s!" node={i}")
    | _ => [])
  ++ L.frameMissing b ++ L.identMissing b

def saturatedB (b : Branch) : Bool := (L.unsaturated b).isEmpty

end LogicData
end Ptx
