/-
  Ptx.Tab.Calculus — the tableau calculus of a logic as a step relation given by its
  regenerated rule table: what a *legal* application of a rule to a tableau is and what it
  produces.  The scheduler (which legal step is chosen) is deliberately NOT modelled: the
  verdict theorems quantify over every sequence of legal steps.

  `applyStep` is executable: the correspondence check replays the history of a real Python
  run through it (each step must be accepted and must reproduce Python's branches).
-/
import Ptx.Tab.Rule
namespace Ptx

inductive FrameRule where
  | reflexive | transitive | symmetric | serial
  deriving DecidableEq, Repr, Inhabited

def FrameRule.name : FrameRule → String
  | .reflexive => "Reflexive" | .transitive => "Transitive" | .symmetric => "Symmetric" | .serial => "Serial"

/-- one step of a proof, as recorded in the history of a run -/
inductive Step where
  /-- apply the table rule for node `n` of branch `b`; `c` / `w'` the witness constant / world used -/
  | rule (b n : Nat) (c : Option (Nat × Nat)) (w' : Option Nat)
  /-- close branch `b` because of the literal constraints on base sentence `s` at world `w` -/
  | close (b : Nat) (s : Sent) (w : Option Nat)
  /-- close branch `b` because node `n` is `¬ a = a` or `¬ E!a` -/
  | closeIdent (b n : Nat)
  /-- frame rule on branch `b` -/
  | frame (b : Nat) (r : FrameRule) (w1 w2 w3 : Nat)
  /-- identity indiscernability on branch `b`: identity node `i`, predication node `p`, replace `old` by `new` -/
  | ident (b i p : Nat)
  /-- a limit helper adds a quit flag to branch `b` -/
  | quit (b : Nat) (name : String) (tick : Option Nat)
  deriving Repr, Inhabited

/-- instantiate one template branch for target node `(s, d, w)`; `l` is what `lhs` stands for,
    `wo` the witness world -/
def instAdds (whole l : Sent) (r raw : Option Sent) (var : Nat × Nat) (w : Option Nat) (wo : Option Nat)
    (br : List AddT) : Option (List Node) :=
  mapOpt (fun
    | .node n =>
        match n.tm.inst whole l r raw var with
        | none => none
        | some s =>
          if n.other then
            match wo with
            | some w' => some (.sent s n.des (some w'))
            | none => none
          else some (.sent s n.des w)
    | .access =>
        match w, wo with
        | some w, some w' => some (.access w w')
        | _, _ => none) br

/-- variable / raw body of a quantified compound -/
def Sent.qvar : Sent → Nat × Nat
  | .quant _ vi vs _ => (vi, vs)
  | _ => (0, 0)
def Sent.qraw : Sent → Option Sent
  | .quant _ _ _ body => some body
  | _ => none

def Shape.isModalShape : Shape → Bool
  | .op1 o => o.isModal
  | _ => false

/-- the groups of nodes a rule produces for compound `whole` (first component `l0`) at world `w`,
    with the legality conditions on the witness constant `c` / witness world `wo` -/
def witnessGroups (b : Branch) (whole l0 : Sent) (w : Option Nat) (c : Option (Nat × Nat)) (wo : Option Nat)
    (r : Rule) : Option (List (List Node)) :=
  match r.witness with
  | .none =>
      if c.isSome || wo.isSome then none
      else mapOpt (instAdds whole l0 whole.rhs? whole.qraw whole.qvar w none) r.branches
  | .newConst =>
      match c with
      | some (ci, cs) =>
          if b.consts.contains (ci, cs) || wo.isSome then none
          else mapOpt (instAdds whole (whole.instC ci cs) none whole.qraw whole.qvar w none) r.branches
      | none => none
  | .eachConst =>
      match c with
      | some (ci, cs) =>
          if wo.isSome then none
          else mapOpt (instAdds whole (whole.instC ci cs) none whole.qraw whole.qvar w none) r.branches
      | none => none
  | .newWorld =>
      match wo, w with
      | some w', some _ =>
          if b.worlds.contains w' || c.isSome then none
          else mapOpt (instAdds whole l0 none none whole.qvar w (some w')) r.branches
      | _, _ => none
  | .eachWorld =>
      match wo, w with
      | some w', some w0 =>
          if !b.hasAccess w0 w' || c.isSome then none
          else mapOpt (instAdds whole l0 none none whole.qvar w (some w')) r.branches
      | _, _ => none

namespace LogicData
variable (L : LogicData)

/-- the rule of the table that applies to node `(s,d,w)` and the node groups it produces -/
def ruleGroups (b : Branch) (s : Sent) (d : Option Bool) (w : Option Nat)
    (c : Option (Nat × Nat)) (wo : Option Nat) : Option (Rule × List (List Node)) :=
  match s.decomp with
  | none => none
  | some (sh, ng, whole) =>
    match L.rule? ⟨sh, ng, d⟩, whole.lhs? with
    | some r, some l0 =>
        if (sh.isModalShape && w.isNone) || !whole.quantOK L then none
        else
          match witnessGroups b whole l0 w c wo r with
          | some gs => some (r, gs)
          | none => none
    | _, _ => none

def frameAllowed (r : FrameRule) : Bool := L.frameRules.contains r.name

end LogicData

/-- replace branch `i` by `b0` and append `extra` at the end (proof/helpers.py AdzHelper._apply) -/
def Tableau.fork (t : Tableau) (i : Nat) (b0 : Branch) (extra : List Branch) : Tableau :=
  t.set i b0 ++ extra

def Branch.extend (b : Branch) (ns : List Node) (tick : Option Nat) : Branch :=
  { b with nodes := b.nodes ++ ns,
           ticked := match tick with | some n => if b.ticked.contains n then b.ticked else b.ticked ++ [n] | none => b.ticked }

def closeB (b : Branch) : Branch := b.extend [.flag "closure"] none

/-- the result of a frame rule on a branch, if legal -/
def frameAdd (b : Branch) (r : FrameRule) (w1 w2 w3 : Nat) : Option Node :=
  match r with
  | .reflexive => if b.worlds.contains w1 then some (.access w1 w1) else none
  | .transitive => if b.hasAccess w1 w2 && b.hasAccess w2 w3 then some (.access w1 w3) else none
  | .symmetric => if b.hasAccess w1 w2 then some (.access w2 w1) else none
  | .serial => if b.worlds.contains w1 && !b.worlds.contains w2 then some (.access w1 w2) else none

/-- is node `nd` one of the identity/existence closers of logic `L` -/
def LogicData.identCloses (L : LogicData) (nd : Node) : Bool :=
  match nd with
  | .sent (.op1 .neg (.pred p [x, y])) d _ =>
      L.closesSelfIdNeg && p == Pred.identity && x == y && d != some false
  | .sent (.op1 .neg (.pred p [_])) d _ =>
      L.closesNonExist && p == Pred.existence && d != some false
  | _ => false

/-- the node the identity rule adds from identity node `ni` and predication node `np` -/
def identAdd (ni np : Node) : Option Node :=
  match ni, np with
  | .sent (.pred q [pa, pb]) none w, .sent (.pred pr ps) none w' =>
      if q != Pred.identity || pa == pb || w != w' then none
      else if ps.contains pa then some (.sent (.pred pr (ps.map (Param.psubst pb pa))) none w)
      else if ps.contains pb then some (.sent (.pred pr (ps.map (Param.psubst pa pb))) none w)
      else none
  | _, _ => none

/-- Apply one step to open branch `b` (index `bi`) if it is a legal instance of the logic's rules. -/
def applyAt (L : LogicData) (t : Tableau) (bi : Nat) (b : Branch) : Step → Option Tableau
  | .rule _ n c wo =>
      match b.nodes[n]? with
      | some (.sent s d w) =>
          match L.ruleGroups b s d w c wo with
          | some (r, g0 :: rest) =>
              let tick := if r.ticks then some n else none
              some (t.fork bi (b.extend g0 tick)
                      (rest.map fun g => { (b.extend g tick) with parent := some bi }))
          | _ => none
      | _ => none
  | .close _ s w =>
      if L.closure.lookup (b.litSet L s w) == some true then some (t.set bi (closeB b)) else none
  | .closeIdent _ n =>
      match b.nodes[n]? with
      | some nd => if L.identCloses nd then some (t.set bi (closeB b)) else none
      | none => none
  | .frame _ r w1 w2 w3 =>
      if !L.frameAllowed r then none else
      match frameAdd b r w1 w2 w3 with
      | some nd => some (t.set bi (b.extend [nd] none))
      | none => none
  | .ident _ i p =>
      if !L.closesSelfIdNeg || i == p then none else
      match b.nodes[i]?, b.nodes[p]? with
      | some ni, some np =>
          match identAdd ni np with
          | some nd => some (t.set bi (b.extend [nd] none))
          | none => none
      | _, _ => none
  | .quit _ name tick =>
      if name == "closure" then none else some (t.set bi (b.extend [.flag name] tick))

def Step.branch : Step → Nat
  | .rule b .. => b | .close b .. => b | .closeIdent b .. => b | .frame b .. => b | .ident b .. => b | .quit b .. => b

/-- Apply one step if it is a legal instance of the logic's rules. -/
def applyStep (L : LogicData) (t : Tableau) (s : Step) : Option Tableau :=
  match t[s.branch]? with
  | none => none
  | some b => if b.closed then none else applyAt L t s.branch b s

/-- replay a list of steps -/
def replay (L : LogicData) : Tableau → List Step → Option Tableau
  | t, [] => some t
  | t, s :: ss => (applyStep L t s).bind (replay L · ss)

/-- `t'` is reachable from `t` by finitely many legal steps -/
inductive Deriv (L : LogicData) : Tableau → Tableau → Prop
  | refl (t) : Deriv L t t
  | step {t t' t''} (s : Step) : applyStep L t s = some t' → Deriv L t' t'' → Deriv L t t''

theorem deriv_of_replay {L : LogicData} : ∀ {t t'} (ss : List Step), replay L t ss = some t' → Deriv L t t'
  | t, t', [], h => by simp [replay] at h; subst h; exact .refl _
  | t, t', s :: ss, h => by
      simp only [replay] at h
      cases hs : applyStep L t s with
      | none => simp [hs] at h
      | some t1 =>
        simp [hs] at h
        exact .step s hs (deriv_of_replay ss h)

/-- the trunk: premises then the conclusion node, as the logic's `build_trunk` lays them out -/
def trunk (L : LogicData) (arg : Argument) : Tableau :=
  let w : Option Nat := if L.modal then some 0 else none
  [{ nodes := arg.premises.map (fun p => Node.sent p L.trunkPrem w) ++
      [Node.sent (if L.trunkConcNeg then arg.conclusion.neg else arg.conclusion) L.trunkConc w] }]

def Tableau.allClosed (t : Tableau) : Bool := t.all Branch.closed

end Ptx
