/-
  Ptx.Tab.Calculus — the tableau calculus of a logic as a step relation given by its
  regenerated rule table: what a *legal* application of a rule to a tableau is and what it
  produces.  The scheduler (which legal step is chosen) is deliberately NOT modelled: the
  verdict theorems quantify over every sequence of legal steps.

  `applyStep` is executable: the correspondence check replays the history of a real Python
  run through it (each step must be accepted and must reproduce Python's branches).
-/
import Ptx.Tab.Rule
namespace Ptx

inductive FrameRule where
  | reflexive | transitive | symmetric | serial
  deriving DecidableEq, Repr, Inhabited

def FrameRule.name : FrameRule → String
  | .reflexive => "Reflexive" | .transitive => "Transitive" | .symmetric => "Symmetric" | .serial => "Serial"

/-- one step of a proof, as recorded in the history of a run -/
inductive Step where
  /-- apply the table rule for node `n` of branch `b`; `c` / `w'` the witness constant / world used -/
  | rule (b n : Nat) (c : Option (Nat × Nat)) (w' : Option Nat)
  /-- close branch `b` because of the literal constraints on base sentence `s` at world `w` -/
  | close (b : Nat) (s : Sent) (w : Option Nat)
  /-- close branch `b` because node `n` is `¬ a = a` or `¬ E!a` -/
  | closeIdent (b n : Nat)
  /-- frame rule on branch `b` -/
  | frame (b : Nat) (r : FrameRule) (w1 w2 w3 : Nat)
  /-- identity indiscernability on branch `b`: identity node `i`, predication node `p`, replace `old` by `new` -/
  | ident (b i p : Nat)
  /-- a limit helper adds a quit flag to branch `b` -/
  | quit (b : Nat) (name : String)
  deriving Repr, Inhabited

/-- instantiate one template branch for target node `(s, d, w)`; `l` is what `lhs` stands for,
    `wo` the witness world -/
def instAdds (whole l : Sent) (r raw : Option Sent) (var : Nat × Nat) (w : Option Nat) (wo : Option Nat)
    (br : List AddT) : Option (List Node) :=
  mapOpt (fun
    | .node n =>
        match n.tm.inst whole l r raw var with
        | none => none
        | some s =>
          if n.other then
            match wo with
            | some w' => some (.sent s n.des (some w'))
            | none => none
          else some (.sent s n.des w)
    | .access =>
        match w, wo with
        | some w, some w' => some (.access w w')
        | _, _ => none) br

namespace LogicData
variable (L : LogicData)

/-- the node groups a table rule produces on node `(s,d,w)` of branch `b`, with the legality
    conditions on the witness -/
def ruleGroups (b : Branch) (s : Sent) (d : Option Bool) (w : Option Nat)
    (c : Option (Nat × Nat)) (wo : Option Nat) : Option (Rule × List (List Node)) := do
  let (sh, ng, whole) ← s.decomp
  let r ← L.rule? ⟨sh, ng, d⟩
  let l0 ← whole.lhs?
  let var : Nat × Nat := match whole with | .quant _ vi vs _ => (vi, vs) | _ => (0, 0)
  let raw : Option Sent := match whole with | .quant _ _ _ body => some body | _ => none
  match r.witness with
  | .none =>
      -- (a quantifier rule without witness must not use `lhs`; the soundness side-check rejects it)
      let l := l0
      if c.isSome || wo.isSome then none else
      let gs ← mapOpt (instAdds whole l whole.rhs? raw var w none) r.branches
      some (r, gs)
  | .newConst => do
      let (ci, cs) ← c
      if b.consts.contains (ci, cs) || wo.isSome then none else
      let gs ← mapOpt (instAdds whole (whole.unquantify ci cs) none raw var w none) r.branches
      some (r, gs)
  | .eachConst => do
      let (ci, cs) ← c
      if wo.isSome then none else
      let gs ← mapOpt (instAdds whole (whole.unquantify ci cs) none raw var w none) r.branches
      some (r, gs)
  | .newWorld => do
      let w' ← wo
      let w0 ← w
      if b.worlds.contains w' || w' == w0 || c.isSome then none else
      let gs ← mapOpt (instAdds whole l0 none none var w (some w')) r.branches
      some (r, gs)
  | .eachWorld => do
      let w' ← wo
      let w0 ← w
      if !b.hasAccess w0 w' || c.isSome then none else
      let gs ← mapOpt (instAdds whole l0 none none var w (some w')) r.branches
      some (r, gs)

def frameAllowed (r : FrameRule) : Bool := L.frameRules.contains r.name

end LogicData

/-- replace branch `i` by `b0` and append `extra` at the end (proof/helpers.py AdzHelper._apply) -/
def Tableau.fork (t : Tableau) (i : Nat) (b0 : Branch) (extra : List Branch) : Tableau :=
  t.set i b0 ++ extra

def Branch.extend (b : Branch) (ns : List Node) (tick : Option Nat) : Branch :=
  { b with nodes := b.nodes ++ ns,
           ticked := match tick with | some n => if b.ticked.contains n then b.ticked else b.ticked ++ [n] | none => b.ticked }

/-- Apply one step if it is a legal instance of the logic's rules. -/
def applyStep (L : LogicData) (t : Tableau) : Step → Option Tableau
  | .rule bi n c wo => do
      let b ← t[bi]?
      if b.closed then none else
      match b.nodes[n]? with
      | some (.sent s d w) => do
          let (r, gs) ← L.ruleGroups b s d w c wo
          match gs with
          | [] => none
          | g0 :: rest =>
              let tick := if r.ticks then some n else none
              some (t.fork bi (b.extend g0 tick)
                      (rest.map fun g => { (b.extend g tick) with parent := some bi }))
      | _ => none
  | .close bi s w => do
      let b ← t[bi]?
      if b.closed then none else
      if L.closure.lookup (b.litSet L s w) == some true then
        some (t.set bi (b.extend [.flag "closure"] none))
      else none
  | .closeIdent bi n => do
      let b ← t[bi]?
      if b.closed then none else
      match b.nodes[n]? with
      | some (.sent (.op1 .neg (.pred p [x, y])) d _) =>
          if L.closesSelfIdNeg && p == Pred.identity && x == y && d != some false then
            some (t.set bi (b.extend [.flag "closure"] none)) else none
      | some (.sent (.op1 .neg (.pred p [_])) d _) =>
          if L.closesNonExist && p == Pred.existence && d != some false then
            some (t.set bi (b.extend [.flag "closure"] none)) else none
      | _ => none
  | .frame bi r w1 w2 w3 => do
      let b ← t[bi]?
      if b.closed || !L.frameAllowed r then none else
      match r with
      | .reflexive =>
          if b.worlds.contains w1 then some (t.set bi (b.extend [.access w1 w1] none)) else none
      | .transitive =>
          if b.hasAccess w1 w2 && b.hasAccess w2 w3 then some (t.set bi (b.extend [.access w1 w3] none)) else none
      | .symmetric =>
          if b.hasAccess w1 w2 then some (t.set bi (b.extend [.access w2 w1] none)) else none
      | .serial =>
          if b.worlds.contains w1 && !b.worlds.contains w2 then some (t.set bi (b.extend [.access w1 w2] none)) else none
  | .ident bi i p => do
      let b ← t[bi]?
      if b.closed || !L.closesSelfIdNeg then none else
      match b.nodes[i]?, b.nodes[p]? with
      | some (.sent (.pred q [pa, pb]) none w), some (.sent (.pred pr ps) none w') =>
          if q != Pred.identity || pa == pb || w != w' || i == p then none else
          let new? : Option (List Param) :=
            if ps.contains pa then some (ps.map (Param.subst pb pa))
            else if ps.contains pb then some (ps.map (Param.subst pa pb))
            else none
          match new? with
          | some ps' => some (t.set bi (b.extend [.sent (.pred pr ps') none w] none))
          | none => none
      | _, _ => none
  | .quit bi name => do
      let b ← t[bi]?
      if b.closed then none else some (t.set bi (b.extend [.flag name] none))

/-- replay a list of steps -/
def replay (L : LogicData) : Tableau → List Step → Option Tableau
  | t, [] => some t
  | t, s :: ss => (applyStep L t s).bind (replay L · ss)

/-- `t'` is reachable from `t` by finitely many legal steps -/
inductive Deriv (L : LogicData) : Tableau → Tableau → Prop
  | refl (t) : Deriv L t t
  | step {t t' t''} (s : Step) : applyStep L t s = some t' → Deriv L t' t'' → Deriv L t t''

theorem deriv_of_replay {L : LogicData} : ∀ {t t'} (ss : List Step), replay L t ss = some t' → Deriv L t t'
  | t, t', [], h => by simp [replay] at h; subst h; exact .refl _
  | t, t', s :: ss, h => by
      simp only [replay] at h
      cases hs : applyStep L t s with
      | none => simp [hs] at h
      | some t1 =>
        simp [hs] at h
        exact .step s hs (deriv_of_replay ss h)

/-- the trunk: premises then the conclusion node, as the logic's `build_trunk` lays them out -/
def trunk (L : LogicData) (arg : Argument) : Tableau :=
  let w : Option Nat := if L.modal then some 0 else none
  [{ nodes := arg.premises.map (fun p => Node.sent p L.trunkPrem w) ++
      [Node.sent (if L.trunkConcNeg then arg.conclusion.neg else arg.conclusion) L.trunkConc w] }]

def Tableau.allClosed (t : Tableau) : Bool := t.all Branch.closed

end Ptx
