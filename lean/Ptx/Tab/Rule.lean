/-
  Ptx.Tab.Rule — instantiating rule templates on a concrete node, and the branch-level
  facts legality needs (constants / worlds on a branch, literal sets).  Executable, core only.
-/
import Ptx.Sem.Struct
namespace Ptx

/-! ### decomposition of a node's sentence into (shape, negated, compound) -/

def Sent.decomp : Sent → Option (Shape × Bool × Sent)
  | .op1 .neg a =>
      match a with
      | .op1 o _ => some (.op1 o, true, a)          -- includes double negation (o = neg)
      | .op2 o _ _ => some (.op2 o, true, a)
      | .quant q _ _ _ => some (.quant q, true, a)
      | _ => none
  | .op1 o a => some (.op1 o, false, .op1 o a)
  | .op2 o a b => some (.op2 o, false, .op2 o a b)
  | .quant q vi vs b => some (.quant q, false, .quant q vi vs b)
  | _ => none

/-- the shape of a compound sentence -/
def Shape.of : Sent → Option Shape
  | .op1 o _ => some (.op1 o)
  | .op2 o _ _ => some (.op2 o)
  | .quant q _ _ _ => some (.quant q)
  | _ => none

/-- operator shape that is not modal -/
def Shape.isTF : Shape → Bool
  | .op1 o => !o.isModal
  | .op2 _ => true
  | .quant _ => false

/-- components of a compound: first operand (for a quantified sentence: the raw body), second operand -/
def Sent.lhs? : Sent → Option Sent
  | .op1 _ a => some a
  | .op2 _ a _ => some a
  | .quant _ _ _ b => some b
  | _ => none
def Sent.rhs? : Sent → Option Sent
  | .op2 _ _ b => some b
  | _ => none

/-- constants occurring in a sentence (with repetitions) -/
def Sent.consts : Sent → List (Nat × Nat)
  | .atom _ _ => []
  | .pred _ ps => ps.filterMap fun | .const i s => some (i, s) | _ => none
  | .quant _ _ _ b => b.consts
  | .op1 _ a => a.consts
  | .op2 _ a b => a.consts ++ b.consts

/-- no quantifier inside binds variable (vi, vs) -/
def Sent.noBinder (vi vs : Nat) : Sent → Bool
  | .atom _ _ => true
  | .pred _ _ => true
  | .quant _ vi' vs' b => !(vi' == vi && vs' == vs) && b.noBinder vi vs
  | .op1 _ a => a.noBinder vi vs
  | .op2 _ a b => a.noBinder vi vs && b.noBinder vi vs

/-- every subsentence is in the vocabulary the logic interprets (nothing opaque inside) -/
def Sent.interp (modal quantified : Bool) : Sent → Bool
  | .atom _ _ => true
  | .pred _ _ => true
  | .quant _ _ _ b => quantified && b.interp modal quantified
  | .op1 o a => (!o.isModal || modal) && a.interp modal quantified
  | .op2 _ a b => a.interp modal quantified && b.interp modal quantified

/-- what a quantifier rule needs of its target compound `Qx.body`: the body does not re-bind `x`
    and contains nothing opaque (so that instantiation means what the semantics says) -/
def Sent.quantOK (L : LogicData) : Sent → Bool
  | .quant _ vi vs b => b.noBinder vi vs && b.interp L.modal L.quantified
  | _ => true

/-! ### template instantiation -/

/-- inside `bind`: only the raw body and truth-functional structure -/
def Tm.instRaw (raw : Sent) : Tm → Option Sent
  | .raw => some raw
  | .op1 o t => (t.instRaw raw).map (.op1 o)
  | .op2 o t u => do some (.op2 o (← t.instRaw raw) (← u.instRaw raw))
  | _ => none

/-- `whole`: the compound; `l`: first operand (operator rules) resp. the instantiated body
    (quantifier rules); `r`: second operand; `raw`/`var`: body and variable of a quantified compound -/
def Tm.inst (whole l : Sent) (r raw : Option Sent) (var : Nat × Nat) : Tm → Option Sent
  | .lhs => some l
  | .rhs => r
  | .whole => some whole
  | .raw => none
  | .bind q t => do
      let b ← raw
      (t.instRaw b).map (.quant q var.1 var.2)
  | .op1 o t => (t.inst whole l r raw var).map (.op1 o)
  | .op2 o t u => do some (.op2 o (← t.inst whole l r raw var) (← u.inst whole l r raw var))

/-! ### branches -/

structure Branch where
  nodes : List Node
  ticked : List Nat := []          -- indices of ticked nodes
  parent : Option Nat := none
  deriving DecidableEq, Repr, Inhabited

namespace Branch
def closed (b : Branch) : Bool :=
  match b.nodes.getLast? with
  | some n => n.isClosure
  | none => false

def consts (b : Branch) : List (Nat × Nat) :=
  b.nodes.flatMap fun | .sent s _ _ => s.consts | _ => []
def worlds (b : Branch) : List Nat := b.nodes.flatMap Node.worldsSem
def hasAccess (b : Branch) (w1 w2 : Nat) : Bool := b.nodes.contains (.access w1 w2)
def hasNode (b : Branch) (n : Node) : Bool := b.nodes.contains n
end Branch

abbrev Tableau := List Branch

/-- the literal constraints present on a branch for base sentence `s` at world `w` -/
def Branch.litSet (L : LogicData) (b : Branch) (s : Sent) (w : Option Nat) : List Lit :=
  L.allLits.filter fun l => b.hasNode (.sent (if l.negated then s.neg else s) l.des w)

/-- base sentence of a node's sentence for closure purposes: strip one negation -/
def Sent.base : Sent → Sent
  | .op1 .neg a => a
  | s => s

end Ptx
