/-
  Ptx.Tab.RenderRead — an independent READER of the plain-text tableau format.  Core Lean only.

  Nothing here looks at a tree or at the writer: the reader gets the text and the legend (`Marks`) and
  reconstructs what a human reads off the page.

    1. `splitNl`      cut the text into lines (Python `str.split('\n')`).
    2. `readLayout`   recover the tree of SEGMENT strings from the columns: the first line of a block is
                      the segment of its structure; the child structures are the blocks of following lines
                      that start at lines carrying the child marker's first character (`-`) in the column
                      right after the end of that first line (the column under/after the fork dot); the
                      connector lines (`   |`) carry nothing.
    3. `readSeg`      strip the child marker (not on the first line of the text) and the fork mark (when
                      child blocks were found) from a segment and cut the rest at the node separator:
                      the pieces (each ending in the separator) are the node strings, what remains after
                      the last separator is the closure mark or nothing.
    4. `NTree.branchNodeStrings`, `NTree.branchClosureMarks`
                      walk every root-to-leaf path: the node strings in order, and how many segments on
                      the path are followed by a closure mark.
-/
import Ptx.Tab.Render
namespace Ptx.Render
open Ptx Ptx.Sym

/-- `text.split('\n')` -/
def splitNl : List Chr → List (List Chr)
  | [] => [[]]
  | c :: r =>
    if c = chNl then [] :: splitNl r
    else match splitNl r with
      | l :: ls => (c :: l) :: ls
      | [] => [[c]]

/-- tree of raw segment strings -/
abbrev DTree := SegTree

/-- line `l` carries the character `dash` in column `c` -/
def isHeader (dash : Chr) (c : Nat) (l : List Chr) : Bool := l[c]? == some dash

/-- (lines before the first header line, blocks each starting at a header line) -/
def blocksAux (dash : Chr) (c : Nat) : List (List Chr) → List (List Chr) × List (List (List Chr))
  | [] => ([], [])
  | l :: r =>
    let pb := blocksAux dash c r
    if isHeader dash c l then ([], (l :: pb.1) :: pb.2) else (l :: pb.1, pb.2)

def blocks (dash : Chr) (c : Nat) (ls : List (List Chr)) : List (List (List Chr)) := (blocksAux dash c ls).2

def optAll {α} : List (Option α) → Option (List α)
  | [] => some []
  | none :: _ => none
  | some x :: r => (optAll r).map (x :: ·)

/-- read a block of lines whose structure's segment starts in column `c` of the first line -/
def readBlock (dash : Chr) : Nat → Nat → List (List Chr) → Option DTree
  | 0, _, _ => none
  | _ + 1, _, [] => none
  | f + 1, c, l :: rest =>
    (optAll ((blocks dash l.length rest).map (readBlock dash f l.length))).map (SegTree.mk (l.drop c))

/-- the first character of the child marker -/
def Marks.dash (m : Marks) : Chr := m.child.headD 0

def readLayout (m : Marks) (text : List Chr) : Option DTree :=
  let ls := splitNl text
  readBlock m.dash (ls.length + 1) 0 ls

/-! ### segments -/

/-- the first character of the node separator -/
def Marks.sepHd (m : Marks) : Chr := m.sep.headD 0

/-- cut at the separators: (pieces, each ending with the separator; what is left after the last one) -/
def splitNodesF (m : Marks) : Nat → List Chr → List (List Chr) × List Chr
  | 0, s => ([], s)
  | f + 1, s =>
    let body := s.takeWhile (· != m.sepHd)
    let rest := s.dropWhile (· != m.sepHd)
    if rest.isEmpty then ([], s)
    else
      let pr := splitNodesF m f (rest.drop m.sep.length)
      ((body ++ rest.take m.sep.length) :: pr.1, pr.2)

def splitNodes (m : Marks) (s : List Chr) : List (List Chr) × List Chr := splitNodesF m (s.length + 1) s

def readSeg (m : Marks) (isRoot hasKids : Bool) (seg : List Chr) : List (List Chr) × List Chr :=
  let s1 := if isRoot then seg else seg.drop m.child.length
  let s2 := if hasKids then s1.take (s1.length - m.fork.length) else s1
  splitNodes m s2

/-- tree of read segments: node strings, trailing mark -/
inductive NTree where
  | mk (nodes : List (List Chr)) (rest : List Chr) (children : List NTree)
  deriving Repr, Inhabited

mutual
def SegTree.toN (m : Marks) (isRoot : Bool) : DTree → NTree
  | .mk seg kids =>
    let sg := readSeg m isRoot (!kids.isEmpty) seg
    .mk sg.1 sg.2 (SegTree.toNL m kids)
def SegTree.toNL (m : Marks) : List DTree → List NTree
  | [] => []
  | k :: r => SegTree.toN m false k :: SegTree.toNL m r
end

/-- read a text tableau -/
def readText (m : Marks) (text : List Chr) : Option NTree := (readLayout m text).map (SegTree.toN m true)

namespace NTree
mutual
/-- every root-to-leaf path: (node strings in order, trailing marks of the segments on the path) -/
def paths : NTree → List (List (List Chr) × List (List Chr))
  | .mk ns rest cs =>
    match cs with
    | [] => [(ns, [rest])]
    | _ :: _ => (pathsL cs).map fun p => (ns ++ p.1, rest :: p.2)
def pathsL : List NTree → List (List (List Chr) × List (List Chr))
  | [] => []
  | c :: r => paths c ++ pathsL r
end

/-- per branch: the node strings, in branch order -/
def branchNodeStrings (t : NTree) : List (List (List Chr)) := t.paths.map (·.1)

/-- per branch: the number of closure marks on it -/
def branchClosureMarks (m : Marks) (t : NTree) : List Nat :=
  t.paths.map fun p => (p.2.filter (· == m.closure)).length

/-- per branch: every trailing mark is the closure mark or nothing -/
def restsClean (m : Marks) (t : NTree) : Bool :=
  t.paths.all fun p => p.2.all fun r => r == m.closure || r == []
end NTree

/-! ### decidable side conditions under which the text is readable

  They are checked by `decide +kernel` on the regenerated marks and string tables (Ptx/Props/C19.lean). -/

/-- every character a sentence writer can emit from table `tb`, digits of subscripts aside -/
def tableChars (tb : StringTable) : List Chr :=
  Op1.all.flatMap tb.op1 ++ Op2.all.flatMap tb.op2 ++ Quant.all.flatMap tb.quant ++
  tb.identity ++ tb.existence ++ tb.negIdentity.getD [] ++
  tb.atom.flatten ++ tb.var.flatten ++ tb.const.flatten ++ tb.pred.flatten ++
  tb.parenOpen.getD [] ++ tb.parenClose.getD [] ++ tb.ws ++ tb.subOpen ++ tb.subClose

/-- `str(int)` characters -/
def isDigitChr (c : Chr) : Bool := decide (48 ≤ c) && decide (c ≤ 57)

/-- the marks that occur inside a node string before its terminator -/
def Marks.bodyChars (m : Marks) : List Chr :=
  m.world ++ m.desT ++ m.desF ++ m.acc1 ++ m.acc2 ++ m.ellipsis ++ m.tick

def Marks.allChars (m : Marks) : List Chr := m.bodyChars ++ m.closure ++ m.sep ++ m.child ++ m.fork

/-- The legend can be read back:
    * the four structural marks are nonempty;
    * the first character of the node separator (`;`) occurs in no other node mark, not in the closure
      mark, and is not a digit — so a node string ends at the first separator;
    * no mark contains a newline — so lines are lines;
    * the first character of the child marker (`-`) is neither the blank nor the bar of the indentation
      — so the column of a child marker identifies the parent. -/
def Marks.Decodable (m : Marks) : Bool :=
  !m.sep.isEmpty && !m.closure.isEmpty && !m.child.isEmpty && !m.fork.isEmpty &&
  !m.bodyChars.contains m.sepHd && !m.closure.contains m.sepHd && !isDigitChr m.sepHd &&
  !m.allChars.contains chNl &&
  m.dash != chSpace && m.dash != chBar

/-- the sentence strings written from table `tb` contain neither the separator's first character nor a
    newline -/
def TableOK (m : Marks) (tb : StringTable) : Bool :=
  !(tableChars tb).contains m.sepHd && !(tableChars tb).contains chNl

end Ptx.Render
