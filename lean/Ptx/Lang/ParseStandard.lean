/-
  Ptx.Lang.ParseStandard — `StandardParser` (lang/parsing.py l.595-713).  Core Lean only.
  Same conventions as ParsePolish (fuel = available nested `_read` activations).
-/
import Ptx.Lang.ParseCtx
namespace Ptx.Parse
open Ptx Ptx.Sym

/-- result of the scan-ahead of `_read_from_paren_open` -/
inductive Scan where
  | unterminated                        -- 'Unterminated open paren'
  | dup                                 -- a second depth-1 binary operator
  | done (o : Option (Op2 × Nat))       -- operator and the length of the input from it to the end
  deriving DecidableEq, Repr, Inhabited

/-- The `while depth:` loop over `context.next(length)`, on the input after the open paren.
    `oper_pos` is represented by the number of characters from the operator to the end of the
    input (`len(input) − oper_pos`). -/
def scanParen (t : ParseTable) : Nat → Option (Op2 × Nat) → List Chr → Scan
  | _, _, [] => .unterminated
  | depth, found, c :: r =>
    match t.lookup c with
    | some .parenClose => if depth ≤ 1 then .done found else scanParen t (depth - 1) found r
    | some .parenOpen => scanParen t (depth + 1) found r
    | some (.op2 o) =>
      if depth = 1 then
        match found with
        | some _ => .dup
        | none => scanParen t depth (some (o, r.length + 1)) r
      else scanParen t depth found r
    | _ => scanParen t depth found r

/-- `_read_infix_predicated` -/
def readInfix (cfg : Cfg) (st : PState) : Res Sent :=
  (readParameter cfg st).andThen fun lhp st1 =>
    match st1.rest with
    | [] => .perr st1                                   -- assert_current_in(pred): end of input
    | c :: _ =>
      match cfg.table.lookup c with
      | some k =>
        if k.isPred then
          (readPredicate cfg st1).andThen fun r st2 =>
            match r with
            | .inl p =>
              if p.arity < 2 then .perr st2
              else (readParams cfg (p.arity - 1) st2).andThen fun ps st3 => .ok (.pred p (lhp :: ps)) st3
            | .inr is =>
              if !cfg.autoPreds then .perr st2
              else
                (readParamsAuto cfg st2.rest.length st2).andThen fun ps st3 =>
                  if ps.length + 1 < 2 then .perr st3
                  else declare cfg is (lhp :: ps) st3
        else unexp st1
      | none => unexp st1

/-- `DefaultParser._read` with the `StandardParser` method map -/
def readStd (cfg : Cfg) : Nat → PState → Res Sent
  | 0, st => .crash .recursion st
  | f+1, st =>
    match st.rest with
    | [] => .perr st
    | c :: r =>
      match cfg.table.lookup c with
      | some (.op1 o) =>
        (readStd cfg f (advance cfg.table st)).andThen fun a st1 => .ok (.op1 o a) st1
      | some (.op2 _) => .perr st                      -- non-prefix operator
      | some (.atom _) => readAtomic cfg st
      | some (.quant q) => readQuantified cfg (fun s => readStd cfg f s) q st
      | some (.pred _) => readPredicated cfg st
      | some (.sysPred _) => readPredicated cfg st
      | some (.const _) => readInfix cfg st
      | some (.var _) => readInfix cfg st
      | some .parenOpen =>
        match scanParen cfg.table 1 none r with
        | .unterminated => .perr st
        | .dup => .perr st
        | .done none => .perr st                       -- missing binary operator
        | .done (some (o, operRemain)) =>
          (readStd cfg f (advance cfg.table st)).andThen fun lhs st2 =>
            let st2 := chompSt cfg.table st2
            if st2.rest.length ≠ operRemain then .perr st2          -- context.pos != oper_pos
            else
              (readStd cfg f (advance cfg.table st2)).andThen fun rhs st4 =>
                let st4 := chompSt cfg.table st4
                match st4.rest with
                | [] => .perr st4                                     -- assert_current_is: end
                | c' :: _ =>
                  if cfg.table.lookup c' = some .parenClose then .ok (.op2 o lhs rhs) (advance cfg.table st4)
                  else .perr st4
      | _ => unexp st

/-- `StandardParser.__call__`: retry once with added outer parentheses, only on `ParseError`;
    a second `ParseError` re-raises the first.  The store mutated by the first attempt is the
    store the second attempt starts from. -/
def parseStandard (cfg : Cfg) (fuel : Nat) (store : Store) (input : List Chr) : Outcome :=
  match callDefault cfg (readStd cfg) fuel store input with
  | .perr store1 =>
    if cfg.dropParens then
      match cfg.table.charOf? .parenOpen, cfg.table.charOf? .parenClose with
      | some po, some pc => callDefault cfg (readStd cfg) fuel store1 (po :: (input ++ [pc]))
      | _, _ => .crash .key store1
    else .perr store1
  | o => o

end Ptx.Parse
