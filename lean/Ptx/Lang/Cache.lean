/-
  Ptx.Lang.Cache — the construction cache of lexical items and the metaclass `__call__`
  (lang/lex.py `metacall`, l.1513-1626) as a state machine.  Core Lean only.

  Python mirrored:
    DequeCache(queue: deque(maxlen), idx: dict, rev: dict), __getitem__, __setitem__
    LexicalAbcMeta.__call__ = call(cls, *spec): passthrough, system predicate by name,
        cache lookup, construct (`supercall`), the from-ident path for abstract classes
        (`LexicalAbc(ident)`, `Sentence(ident)`, `Parameter(ident)`, `CoordsItem(ident)`),
        `cache[clsname, spec] = cache[inst.ident] = inst`
    the constructors reached through it: CoordsItem.__new__, Predicate.__new__/__init__,
        Predicated/Quantified/Operated.__init__ (whose nested `Predicate(..)`, `Parameter(..)`,
        `Variable(..)`, `Sentence(..)` calls go through the same metaclass call and cache),
        the enum lookups `Quantifier(x)`, `Operator(x)` (EbcMeta.__call__), `LexType(name)`
    `spec` / `ident` of every item

  The model follows the code AS IT IS WITH TWO CANDIDATE FIXES (tools/fix_C14_1.diff, fix_C14_2.diff):
    fix 1: `Predicate(-1,0,2)` / `Predicate((-1,0,2))` (and Existence) return the system
           predicate instead of raising ValueError — needed to rebuild from `ident`/`spec`;
    fix 2: `ITEM_CACHE_SIZE=0` stores nothing instead of raising IndexError on the first store.
  `Fixes` selects the unfixed behaviour for the witnesses in Props/C14.lean.

  Arguments of calls are Python values restricted to int | str | tuple | lexical item.
-/
import Ptx.Lang.Order
namespace Ptx

mutual
/-- a Python argument value -/
inductive Arg where
  | int (n : Int)
  | str (s : String)
  | tup (xs : Args)
  | item (x : Item)
inductive Args where
  | nil
  | cons (a : Arg) (as : Args)
end
deriving instance DecidableEq for Arg, Args
deriving instance Repr for Arg, Args
instance : Inhabited Arg := ⟨.int 0⟩

def Args.toList : Args → List Arg
  | .nil => []
  | .cons a as => a :: as.toList
def Args.ofList : List Arg → Args
  | [] => .nil
  | a :: as => .cons a (ofList as)

/-- build a tuple value -/
def Arg.tuple (xs : List Arg) : Arg := .tup (.ofList xs)

mutual
def Arg.size : Arg → Nat
  | .tup xs => xs.size + 1
  | _ => 1
def Args.size : Args → Nat
  | .nil => 0
  | .cons a as => a.size + as.size
end

/-- the classes whose calls go through `LexicalAbcMeta.__call__` -/
inductive Cls where
  | predicate | constant | variable_ | atomic | predicated | quantified | operated   -- concrete
  | lexicalAbc | coordsItem | parameter | sentence                                   -- abstract
  deriving DecidableEq, Repr, Inhabited

namespace Cls
def name : Cls → String
  | predicate => "Predicate" | constant => "Constant" | variable_ => "Variable" | atomic => "Atomic"
  | predicated => "Predicated" | quantified => "Quantified" | operated => "Operated"
  | lexicalAbc => "LexicalAbc" | coordsItem => "CoordsItem" | parameter => "Parameter"
  | sentence => "Sentence"
def isAbstract : Cls → Bool
  | lexicalAbc | coordsItem | parameter | sentence => true
  | _ => false
def all : List Cls :=
  [predicate, constant, variable_, atomic, predicated, quantified, operated, lexicalAbc, coordsItem,
   parameter, sentence]
end Cls

/-- what `LexType(clsname).cls` can be -/
inductive Target where
  | lex (c : Cls)      -- one of the seven concrete classes
  | quantifier
  | operator
  deriving DecidableEq, Repr

/-- exception kinds; `fuel`, `negIndex` are artefacts of the model (see below) -/
inductive Err where
  | type | value | attr | key | index
  | negIndex   -- Python builds a Constant/Variable/Atomic with a NEGATIVE index (no lower-bound
               -- check in CoordsItem.__new__); such items are outside `Item` (indices are Nat)
  | fuel       -- recursion budget of the model exhausted (never with `fuelFor`)
  deriving DecidableEq, Repr

abbrev R := Except Err Item

/-- which candidate fixes are applied -/
structure Fixes where
  sysPred : Bool := true     -- fix 1
  maxlen0 : Bool := true     -- fix 2
  deriving DecidableEq, Repr

/-! ### isinstance, iteration, enum lookups -/

/-- `isinstance(item, cls)` -/
def isInst (x : Item) : Cls → Bool
  | .predicate => x.type == .tPred
  | .constant => x.type == .tConst
  | .variable_ => x.type == .tVar
  | .atomic => x.type == .tAtomic
  | .predicated => x.type == .tPredicated
  | .quantified => x.type == .tQuantified
  | .operated => x.type == .tOperated
  | .lexicalAbc => match x with | .quant _ => false | .op _ => false | _ => true
  | .coordsItem => match x with | .pred _ => true | .param _ => true | .sent (.atom _ _) => true | _ => false
  | .parameter => match x with | .param _ => true | _ => false
  | .sentence => match x with | .sent _ => true | _ => false

/-- `iter(value)`: tuples, strings (characters), and the sentence types that are Sequences
    (Predicated -> params, Quantified -> (quantifier, variable, sentence), Operated -> operands);
    everything else is not iterable (TypeError) -/
def iterate : Arg → Except Err (List Arg)
  | .int _ => .error .type
  | .str s => .ok (s.toList.map fun ch => .str ch.toString)
  | .tup xs => .ok xs.toList
  | .item (.sent (.pred _ ps)) => .ok (ps.map fun p => .item (.param p))
  | .item (.sent (.quant q vi vs b)) => .ok [.item (.quant q), .item (.param (.var vi vs)), .item (.sent b)]
  | .item (.sent (.op1 _ a)) => .ok [.item (.sent a)]
  | .item (.sent (.op2 _ a b)) => .ok [.item (.sent a), .item (.sent b)]
  | .item _ => .error .type

def quantByName (s : String) : Option Quant := Quant.all.find? (·.name == s)
def opByName (s : String) : Option Op := Op.all.find? (·.name == s)

/-- `inflect.snakespace(name)`: the label with blanks -/
def Op.label : Op → String
  | .b .mcond => "Material Conditional"
  | .b .mbicond => "Material Biconditional"
  | o => o.name

/-- `Quantifier(x)` (EbcMeta.__call__): by member, name, `(name,)`, or value 0/1 -/
def enumQuant : Arg → Except Err Quant
  | .item (.quant q) => .ok q
  | .str s => match quantByName s with | some q => .ok q | none => .error .value
  | .int n => if n = 0 then .ok .ex else if n = 1 then .ok .univ else .error .value
  | .tup (.cons (.str s) .nil) => match quantByName s with | some q => .ok q | none => .error .value
  | _ => .error .value

/-- `Operator(x)`: by member, name, label, `(name,)`, or value `(order, arity)` -/
def enumOp : Arg → Except Err Op
  | .item (.op o) => .ok o
  | .str s => match Op.all.find? (fun o => o.name == s || o.label == s) with
      | some o => .ok o | none => .error .value
  | .tup (.cons (.str s) .nil) => match opByName s with | some o => .ok o | none => .error .value
  | .tup (.cons (.int a) (.cons (.int b) .nil)) =>
      match Op.all.find? (fun o => (o.order : Int) == a && (o.arity : Int) == b) with
      | some o => .ok o | none => .error .value
  | _ => .error .value

/-- `LexType(clsname).cls`: by name or `(name,)` -/
def lexTypeByName (s : String) : Except Err Target :=
  if s = "Predicate" then .ok (.lex .predicate) else if s = "Constant" then .ok (.lex .constant)
  else if s = "Variable" then .ok (.lex .variable_) else if s = "Atomic" then .ok (.lex .atomic)
  else if s = "Predicated" then .ok (.lex .predicated) else if s = "Quantified" then .ok (.lex .quantified)
  else if s = "Operated" then .ok (.lex .operated) else if s = "Quantifier" then .ok .quantifier
  else if s = "Operator" then .ok .operator else .error .value

def lexTypeOf : Arg → Except Err Target
  | .str s => lexTypeByName s
  | .tup (.cons (.str s) .nil) => lexTypeByName s
  | _ => .error .value

/-- `cls is LexicalAbc or issubclass(Class, cls)` -/
def subclassOK (cls : Cls) : Target → Bool
  | .lex c =>
    match cls with
    | .lexicalAbc => true
    | .coordsItem => c == .predicate || c == .constant || c == .variable_ || c == .atomic
    | .parameter => c == .constant || c == .variable_
    | .sentence => c == .atomic || c == .predicated || c == .quantified || c == .operated
    | _ => c == cls
  | _ => cls == .lexicalAbc

/-- `clsname, spec = arg` -/
def unpack2 (a : Arg) : Except Err (Arg × Arg) :=
  match iterate a with
  | .error e => .error e
  | .ok [x, y] => .ok (x, y)
  | .ok _ => .error .value

/-! ### spec and ident -/

def Param.specArgs : Param → List Arg
  | .const i s => [.int i, .int s]
  | .var i s => [.int i, .int s]
def Param.clsName : Param → String
  | .const _ _ => "Constant" | .var _ _ => "Variable"
def Param.ident (p : Param) : Arg := .tuple [.str p.clsName, .tuple p.specArgs]

def Pred.specArgs (p : Pred) : List Arg := [.int p.index, .int p.sub, .int p.arity]

def identsOfParams : List Param → List Arg
  | [] => []
  | p :: ps => p.ident :: identsOfParams ps

mutual
/-- `s.spec` as the list of its elements -/
def Sent.specArgs : Sent → List Arg
  | .atom i s => [.int i, .int s]
  | .pred p ps => [.tuple p.specArgs, .tuple (identsOfParams ps)]
  | .quant q vi vs b => [.str q.name, .tuple [.int vi, .int vs], b.ident]
  | .op1 o a => [.str o.name, .tuple [a.ident]]
  | .op2 o a b => [.str o.name, .tuple [a.ident, b.ident]]
/-- `s.ident = (type(s).__name__, s.spec)` -/
def Sent.ident : Sent → Arg
  | .atom i s => .tuple [.str "Atomic", .tuple [.int i, .int s]]
  | .pred p ps => .tuple [.str "Predicated", .tuple [.tuple p.specArgs, .tuple (identsOfParams ps)]]
  | .quant q vi vs b => .tuple [.str "Quantified", .tuple [.str q.name, .tuple [.int vi, .int vs], b.ident]]
  | .op1 o a => .tuple [.str "Operated", .tuple [.str o.name, .tuple [a.ident]]]
  | .op2 o a b => .tuple [.str "Operated", .tuple [.str o.name, .tuple [a.ident, b.ident]]]
end

/-- `item.spec` (elements) -/
def specArgs : Item → List Arg
  | .pred p => p.specArgs
  | .param p => p.specArgs
  | .quant q => [.str q.name]
  | .op o => [.str o.name]
  | .sent s => s.specArgs

/-- `item.ident` -/
def identArg (x : Item) : Arg := .tuple [.str x.type.name, .tuple (specArgs x)]

/-- the class that `LexType(type(x).__name__)` names -/
def targetOf (x : Item) : Target :=
  match x.type with
  | .tPred => .lex .predicate | .tConst => .lex .constant | .tVar => .lex .variable_
  | .tQuant => .quantifier | .tOp => .operator | .tAtomic => .lex .atomic
  | .tPredicated => .lex .predicated | .tQuantified => .lex .quantified | .tOperated => .lex .operated

/-! ### what the constructors accept: valid items -/

def Param.Valid : Param → Bool
  | .const i _ => i ≤ 3
  | .var i _ => i ≤ 3
/-- user predicates: 0 ≤ index ≤ 3, arity > 0; or one of the two system predicates -/
def Pred.Valid (p : Pred) : Bool :=
  (0 ≤ p.index && p.index ≤ 3 && p.arity > 0) || p == Pred.identity || p == Pred.existence
def Sent.Valid : Sent → Bool
  | .atom i _ => i ≤ 4
  | .pred p ps => p.Valid && ps.all Param.Valid && ps.length == p.arity
  | .quant _ vi _ b => vi ≤ 3 && b.Valid
  | .op1 _ a => a.Valid
  | .op2 _ a b => a.Valid && b.Valid
def Item.Valid : Item → Bool
  | .pred p => p.Valid
  | .param p => p.Valid
  | .sent s => s.Valid
  | _ => true

/-! ### constructor bodies as programs that may make nested metaclass calls -/

/-- a constructor body: finishes with an item or an exception, or makes a nested call
    `cls(*args)` and continues with its result; an exception of a nested call propagates
    (no constructor catches one) -/
inductive Prog where
  | ret (x : Item)
  | fail (e : Err)
  | call (cls : Cls) (args : List Arg) (k : Item → Prog)

/-- `tuple(map(cls, values))`: one call per value, left to right -/
def callEach (cls : Cls) : List Arg → (List Item → Prog) → Prog
  | [], k => k []
  | a :: as, k => .call cls [a] fun x => callEach cls as fun xs => k (x :: xs)

def allInts : List Arg → Option (List Int)
  | [] => some []
  | .int n :: r => (allInts r).map (n :: ·)
  | _ => none

/-- `Coords._make(spec[0] if len(spec) == 1 else spec)` followed by `value.__index__()`;
    every failure here is a TypeError -/
def coordArgs (n : Nat) (args : List Arg) : Except Err (List Int) :=
  let xsE := match args with
    | [a] => iterate a
    | _ => .ok args
  match xsE with
  | .error _ => .error .type
  | .ok xs =>
    if xs.length ≠ n then .error .type
    else match allInts xs with
      | some l => .ok l
      | none => .error .type

/-- Constant / Variable / Atomic: `CoordsItem.__new__` -/
def biCoords (maxi : Int) (mk : Nat → Nat → Item) (args : List Arg) : Prog :=
  match coordArgs 2 args with
  | .error e => .fail e
  | .ok [i, s] =>
    if i > maxi then .fail .value
    else if s < 0 then .fail .value
    else if i < 0 then .fail .negIndex
    else .ret (mk i.toNat s.toNat)
  | .ok _ => .fail .type

/-- `Predicate.__new__` + `Predicate.__init__` (user predicates; system predicates are not
    constructed here — `self.System` is already defined — hence ValueError for index < 0) -/
def predBody (args : List Arg) : Prog :=
  let xsE := match args with
    | [a] => iterate a          -- `len(spec := spec[0])`, `spec[0:3]`
    | _ => .ok args
  match xsE with
  | .error _ => .fail .type
  | .ok [] => .fail .attr       -- object.__new__, then `self.arity` in __init__
  | .ok xs =>
    match coordArgs 3 (xs.take 3) with
    | .error e => .fail e
    | .ok [i, s, a] =>
      if i > 3 then .fail .value
      else if s < 0 then .fail .value
      else if a ≤ 0 then .fail .value
      else if i < 0 then .fail .value
      else if xs.length ≠ 3 then .fail .type
      else .ret (.pred ⟨i, s.toNat, a.toNat⟩)
    | .ok _ => .fail .type

def itemsToParams : List Item → Option (List Param)
  | [] => some []
  | .param p :: r => (itemsToParams r).map (p :: ·)
  | _ => none

/-- `Predicated.__init__(self, pred, *params)` -/
def predicatedBody (args : List Arg) : Prog :=
  match args with
  | [] => .fail .type
  | pred :: rest =>
    let params : Arg := match rest with
      | [one] => one
      | _ => .tuple rest
    .call .predicate [pred] fun P =>
      match P with
      | .pred p =>
        let fin : List Item → Prog := fun items =>
          if items.length ≠ p.arity then .fail .type
          else match itemsToParams items with
            | some ps => .ret (.sent (.pred p ps))
            | none => .fail .type
        match params with
        | .item (.param q) => fin [.param q]
        | _ =>
          match iterate params with
          | .error e => .fail e
          | .ok xs => callEach .parameter xs fin
      | _ => .fail .type

/-- `Quantified.__init__(self, q, v, s, /)` -/
def quantifiedBody (args : List Arg) : Prog :=
  match args with
  | [q, v, s] =>
    match enumQuant q with
    | .error e => .fail e
    | .ok q =>
      .call .variable_ [v] fun V =>
      .call .sentence [s] fun S =>
        match V, S with
        | .param (.var vi vs), .sent b => .ret (.sent (.quant q vi vs b))
        | _, _ => .fail .type
  | _ => .fail .type

def itemsToSents : List Item → Option (List Sent)
  | [] => some []
  | .sent s :: r => (itemsToSents r).map (s :: ·)
  | _ => none

/-- `Operated.__init__(self, oper, *operands)` -/
def operatedBody (args : List Arg) : Prog :=
  match args with
  | [] => .fail .type
  | oper :: rest =>
    let operands : Arg := match rest with
      | [one] => one
      | _ => .tuple rest
    match enumOp oper with
    | .error e => .fail e
    | .ok o =>
      let fin : List Item → Prog := fun items =>
        match itemsToSents items with
        | none => .fail .type
        | some ss =>
          match o, ss with
          | .u o1, [a] => .ret (.sent (.op1 o1 a))
          | .b o2, [a, b] => .ret (.sent (.op2 o2 a b))
          | _, _ => .fail .value      -- Emsg.ArityMismatch
      match operands with
      | .item (.sent s) => fin [.sent s]
      | _ =>
        match iterate operands with
        | .error e => .fail e
        | .ok xs => callEach .sentence xs fin

/-- `supercall(cls, *args)` for the concrete classes -/
def body : Cls → List Arg → Prog
  | .constant, args => biCoords 3 (fun i s => .param (.const i s)) args
  | .variable_, args => biCoords 3 (fun i s => .param (.var i s)) args
  | .atomic, args => biCoords 4 (fun i s => .sent (.atom i s)) args
  | .predicate, args => predBody args
  | .predicated, args => predicatedBody args
  | .quantified, args => quantifiedBody args
  | .operated, args => operatedBody args
  | _, _ => .fail .type       -- abstract: "Can't instantiate abstract class"

def sysPredByName (s : String) : R :=
  if s = "Identity" then .ok (.pred Pred.identity)
  else if s = "Existence" then .ok (.pred Pred.existence)
  else .error .value

/-- answered before the cache is consulted -/
def pre (fx : Fixes) (cls : Cls) (args : List Arg) : Option R :=
  let special : Option R := match args with
    | [.item x] => if isInst x cls then some (.ok x) else none          -- passthrough
    | [.str s] => if cls = .predicate then some (sysPredByName s) else none
    | _ => none
  match special with
  | some r => some r
  | none =>
    if fx.sysPred && cls = .predicate then
      -- fix 1: the spec of a system predicate
      let ref : Arg := match args with
        | [a] => a
        | _ => .tuple args
      if ref = .tuple Pred.identity.specArgs then some (.ok (.pred Pred.identity))
      else if ref = .tuple Pred.existence.specArgs then some (.ok (.pred Pred.existence))
      else none
    else none

/-- the key `(clsname, spec)` -/
def callKey (cls : Cls) (args : List Arg) : Arg := .tuple [.str cls.name, .tuple args]

/-- `Quantifier(*xs)` / `Operator(*xs)` (EbcMeta.__call__(cls, value, names=None)) -/
def enumCall (isQuant : Bool) : List Arg → R
  | [a] => if isQuant then (enumQuant a).map .quant else (enumOp a).map .op
  | _ => .error .type

/-- the from-ident decoding of the single argument of an abstract class call -/
def decodeIdent (cls : Cls) (args : List Arg) : Except Err (Arg × Arg × Target) :=
  match args with
  | [arg] =>
    match unpack2 arg with
    | .error e => .error e
    | .ok (cn, sp) =>
      match lexTypeOf cn with
      | .error e => .error e
      | .ok tgt => if subclassOK cls tgt then .ok (cn, sp, tgt) else .error .type
  | _ => .error .type

/-! ### the pure meaning of a call: a fresh build, no cache -/

def runP (call : Cls → List Arg → R) : Prog → R
  | .ret x => .ok x
  | .fail e => .error e
  | .call cls args k =>
    match call cls args with
    | .ok x => runP call (k x)
    | .error e => .error e

def evalP (fx : Fixes) : Nat → Cls → List Arg → R
  | 0, _, _ => .error .fuel
  | n+1, cls, args =>
    match pre fx cls args with
    | some r => r
    | none =>
      if cls.isAbstract then
        match decodeIdent cls args with
        | .error e => .error e
        | .ok (_, sp, tgt) =>
          match iterate sp with
          | .error e => .error e
          | .ok xs =>
            match tgt with
            | .lex c => evalP fx n c xs
            | .quantifier => enumCall true xs
            | .operator => enumCall false xs
      else runP (evalP fx n) (body cls args)

/-- the fresh build denoted by a cache key -/
def keyBuildP (fx : Fixes) (n : Nat) : Arg → R
  | .item x => .ok x
  | .tup (.cons cn (.cons sp .nil)) =>
    match lexTypeOf cn with
    | .error e => .error e
    | .ok tgt =>
      match iterate sp with
      | .error e => .error e
      | .ok xs =>
        match tgt with
        | .lex c => evalP fx n c xs
        | .quantifier => enumCall true xs
        | .operator => enumCall false xs
  | _ => .error .key

/-! ### DequeCache -/

structure Cache where
  maxlen : Nat
  queue  : List Item                 -- deque(maxlen=maxlen), oldest first
  idx    : List (Arg × Item)         -- dict: called args / ident / the item itself ↦ item
  rev    : List (Item × List Arg)    -- dict (insertion ordered): item ↦ set of its idx keys
  deriving Repr

def Cache.empty (maxlen : Nat) : Cache := ⟨maxlen, [], [], []⟩

def assocGet {α β} [DecidableEq α] (k : α) : List (α × β) → Option β
  | [] => none
  | (k', v) :: r => if k' = k then some v else assocGet k r

def assocSet {α β} [DecidableEq α] (k : α) (v : β) (l : List (α × β)) : List (α × β) :=
  if (assocGet k l).isSome then l.map fun e => if e.1 = k then (k, v) else e
  else l ++ [(k, v)]

/-- `cache[key]` -/
def Cache.get (c : Cache) (k : Arg) : Option Item := assocGet k c.idx

/-- `idx[key] = value; rev[value].add(key)` -/
def Cache.bind (c : Cache) (key : Arg) (v : Item) : Except Err Cache :=
  match assocGet v c.rev with
  | none => .error .key
  | some ks =>
    .ok { c with idx := assocSet key v c.idx,
                 rev := assocSet v (if key ∈ ks then ks else ks ++ [key]) c.rev }

/-- `old = queue.popleft(); for k in rev.pop(old): del idx[k]` -/
def Cache.evict (c : Cache) : Except Err Cache :=
  match c.queue with
  | [] => .error .index
  | old :: q =>
    match assocGet old c.rev with
    | none => .error .key
    | some ks =>
      if ks.all fun k => (assocGet k c.idx).isSome then
        .ok { c with queue := q, rev := c.rev.filter (fun e => e.1 ≠ old),
                     idx := c.idx.filter (fun e => e.1 ∉ ks) }
      else .error .key

/-- `if len(rev) >= queue.maxlen: <evict the oldest>` -/
def Cache.makeRoom (c : Cache) : Except Err Cache :=
  if c.rev.length ≥ c.maxlen then c.evict else .ok c

/-- `idx[value] = value; rev[value] = {value}; queue.append(value)` (a full deque drops its head) -/
def Cache.enroll (c : Cache) (value : Item) : Cache :=
  { c with
    idx := assocSet (.item value) value c.idx,
    rev := assocSet value [.item value] c.rev,
    queue := if (c.queue ++ [value]).length > c.maxlen then (c.queue ++ [value]).drop 1
             else c.queue ++ [value] }

/-- `DequeCache.__setitem__(key, value)` -/
def Cache.store (fx : Fixes) (c : Cache) (key : Arg) (value : Item) : Except Err Cache :=
  if (assocGet value c.rev).isSome then
    match assocGet (.item value) c.idx with      -- `value = idx[value]`
    | none => .error .key
    | some v => c.bind key v
  else if fx.maxlen0 && c.maxlen = 0 then .ok c        -- fix 2
  else
    match c.makeRoom with
    | .error e => .error e
    | .ok c1 => (c1.enroll value).bind key value

/-- `cache[clsname, spec] = cache[inst.ident] = inst` (targets assigned left to right) -/
def storeBoth (fx : Fixes) (c : Cache) (key : Arg) (x : Item) : R × Cache :=
  match c.store fx key x with
  | .error e => (.error e, c)
  | .ok c1 =>
    match c1.store fx (identArg x) x with
    | .error e => (.error e, c1)
    | .ok c2 => (.ok x, c2)

/-! ### the metaclass call with the cache -/

def runC (call : Cls → List Arg → Cache → R × Cache) : Prog → Cache → R × Cache
  | .ret x, c => (.ok x, c)
  | .fail e, c => (.error e, c)
  | .call cls args k, c =>
    match call cls args c with
    | (.ok x, c') => runC call (k x) c'
    | (.error e, c') => (.error e, c')

def evalC (fx : Fixes) : Nat → Cls → List Arg → Cache → R × Cache
  | 0, _, _, c => (.error .fuel, c)
  | n+1, cls, args, c =>
    match pre fx cls args with
    | some r => (r, c)
    | none =>
      match c.get (callKey cls args) with
      | some v => (.ok v, c)
      | none =>
        if cls.isAbstract then
          match decodeIdent cls args with
          | .error e => (.error e, c)
          | .ok (cn, sp, tgt) =>
            match c.get (.tuple [cn, sp]) with
            | some v => (.ok v, c)
            | none =>
              match iterate sp with
              | .error e => (.error e, c)
              | .ok xs =>
                let rc : R × Cache := match tgt with
                  | .lex c' => evalC fx n c' xs c
                  | .quantifier => (enumCall true xs, c)
                  | .operator => (enumCall false xs, c)
                match rc with
                | (.ok x, c') => storeBoth fx c' (.tuple [cn, sp]) x
                | (.error e, c') => (.error e, c')
        else
          match runC (evalC fx n) (body cls args) c with
          | (.ok x, c') => storeBoth fx c' (callKey cls args) x
          | (.error e, c') => (.error e, c')

/-- recursion budget: generous in the size of the arguments -/
def fuelFor (args : List Arg) : Nat := 2 * (Args.ofList args).size + 4

/-- `cls(*args)` against cache state `c` -/
def metacall (fx : Fixes) (c : Cache) (cls : Cls) (args : List Arg) : R × Cache :=
  evalC fx (fuelFor args) cls args c

/-- `cls(*args)` in a fresh process with nothing cached -/
def build (fx : Fixes) (cls : Cls) (args : List Arg) : R := evalP fx (fuelFor args) cls args

/-- `LexicalAbc(ident)` -/
def fromIdent (fx : Fixes) (ident : Arg) : R := build fx .lexicalAbc [ident]

end Ptx
