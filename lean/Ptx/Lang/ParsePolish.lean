/-
  Ptx.Lang.ParsePolish — `PolishParser` (lang/parsing.py l.585-593) on top of ParseCtx, and
  `Argument.from_argstr` (lang/collect.py l.131-151).  Core Lean only.

  Recursion: `readPolish` is structurally recursive on `fuel`, the number of nested `_read`
  activations Python's stack still has room for; at `fuel = 0` the call raises RecursionError.
  Termination is therefore by construction (and real: CPython terminates for the same reason or
  because the input is exhausted — every activation that recurses has consumed ≥ 1 character).
-/
import Ptx.Lang.ParseCtx
namespace Ptx.Parse
open Ptx Ptx.Sym

/-- `DefaultParser._read` with `PolishParser._read_operated` -/
def readPolish (cfg : Cfg) : Nat → PState → Res Sent
  | 0, st => .crash .recursion st
  | f+1, st =>
    match st.rest with
    | [] => .perr st                                  -- assert_current: unexpected end of input
    | c :: _ =>
      match cfg.table.lookup c with
      | some (.op1 o) =>
        (readPolish cfg f (advance cfg.table st)).andThen fun a st1 => .ok (.op1 o a) st1
      | some (.op2 o) =>
        (readPolish cfg f (advance cfg.table st)).andThen fun a st1 =>
          (readPolish cfg f st1).andThen fun b st2 => .ok (.op2 o a b) st2
      | some (.atom _) => readAtomic cfg st
      | some (.quant q) => readQuantified cfg (fun s => readPolish cfg f s) q st
      | some (.pred _) => readPredicated cfg st
      | some (.sysPred _) => readPredicated cfg st
      | _ => unexp st                                  -- KeyError in _methodmap → ParseError(_unexp_msg)

/-- `PolishParser.__call__` -/
def parsePolish (cfg : Cfg) (fuel : Nat) (store : Store) (input : List Chr) : Outcome :=
  callDefault cfg (readPolish cfg) fuel store input

/-! ### `Argument.from_argstr` -/

/-- `str.split(sep)` for a one-character separator -/
def splitOn (sep : Chr) : List Chr → List (List Chr)
  | [] => [[]]
  | c :: r =>
    if c = sep then [] :: splitOn sep r
    else match splitOn sep r with
      | [] => [[c]]            -- unreachable: splitOn never returns []
      | h :: t => (c :: h) :: t

inductive ArgOutcome where
  | ok (a : Argument) (store : Store)
  | perr
  | crash (k : Kind)
  deriving DecidableEq, Repr, Inhabited

/-- `map(parser, pieces)` on ONE parser (the store threads through) -/
def parseAll (cfg : Cfg) (fuel : Nat) : Store → List (List Chr) → Except (Option Kind) (List Sent × Store)
  | st, [] => .ok ([], st)
  | st, x :: xs =>
    match parsePolish cfg fuel st x with
    | .ok s st1 =>
      match parseAll cfg fuel st1 xs with
      | .ok (ss, st2) => .ok (s :: ss, st2)
      | .error e => .error e
    | .perr _ => .error none
    | .crash k _ => .error (some k)

/-- `Argument.from_argstr`: `conc, *prems = argstr.split(':')`, a fresh `PolishParser(auto_preds=True)`,
    conclusion parsed first, then the premises in order. -/
def fromArgstr (cfg : Cfg) (fuel : Nat) (input : List Chr) : ArgOutcome :=
  match parseAll { cfg with autoPreds := true } fuel Store.empty (splitOn 58 input) with
  | .ok (c :: ps, st) => .ok ⟨ps, c⟩ st
  | .ok ([], _) => .perr      -- unreachable: split never returns []
  | .error none => .perr
  | .error (some k) => .crash k

end Ptx.Parse
