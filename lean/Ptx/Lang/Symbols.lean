/-
  Ptx.Lang.Symbols — symbol tables of pytableaux's parsers and writers as plain data.
  Core Lean only (compiled into the driver).

  Python side mirrored (lang/parsing.py `ParseTable`, lang/writing.py `StringTable`,
  lang/_symdata.py):

    ParseTable   : char ↦ (type, value)             -> `ParseTable.entries : List (Chr × Tok)`
    StringTable  : lexical key ↦ string             -> `StringTable` (functions / index lists)
    LexType.maxi : maximal index per coordinate class -> `MaxIdx`

  A character is its Unicode code point (`Chr := Nat`): a Python `str` is a sequence of code
  points (lone surrogates included), all table keys are single characters, and code points make
  every table side-condition a kernel-cheap `Nat` computation.

  The concrete tables are REGENERATED from the running code into `Ptx/Gen/Symbols.lean` by
  harness/extract/symbols.py; nothing in this file mentions a concrete symbol.
-/
import Ptx.Lang.Syntax
namespace Ptx.Sym

/-- a character: its code point -/
abbrev Chr := Nat

/-- the two members of `Predicate.System` -/
inductive SysPred where
  | identity | existence
  deriving DecidableEq, Repr, Inhabited

def SysPred.toPred : SysPred → Pred
  | .identity => Pred.identity
  | .existence => Pred.existence

def SysPred.all : List SysPred := [.identity, .existence]

/-- A parse-table item `(type, value)`:
    `(Operator, o)`, `(Quantifier, q)`, `(Predicate.System, p)`, `(Variable, i)`, `(Constant, i)`,
    `(Predicate, i)`, `(Atomic, i)`, `(Marking.paren_open, 0)`, `(Marking.paren_close, 0)`,
    `(Marking.whitespace, 0)`, `(Marking.digit, d)`. -/
inductive Tok where
  | op1 (o : Op1) | op2 (o : Op2) | quant (q : Quant) | sysPred (p : SysPred)
  | var (i : Nat) | const (i : Nat) | pred (i : Nat) | atom (i : Nat)
  | parenOpen | parenClose | ws | digit (d : Nat)
  deriving DecidableEq, Repr, Inhabited

/-- the `value` of an item when it is an integer index (what `_read_coords` needs) -/
def Tok.index? : Tok → Option Nat
  | .var i | .const i | .pred i | .atom i => some i
  | _ => none

def Tok.isParam : Tok → Bool
  | .var _ | .const _ => true
  | _ => false

def Tok.isPred : Tok → Bool
  | .pred _ | .sysPred _ => true
  | _ => false

def Tok.isDigit : Tok → Bool
  | .digit _ => true
  | _ => false

/-- `LexType.<cls>.maxi` -/
structure MaxIdx where
  atom : Nat
  var : Nat
  const : Nat
  pred : Nat
  deriving DecidableEq, Repr, Inhabited

structure ParseTable where
  notn : String
  dialect : String
  entries : List (Chr × Tok)
  deriving Repr, Inhabited

namespace ParseTable

/-- `table[char]` (`none` = `KeyError`) -/
def lookup (t : ParseTable) (c : Chr) : Option Tok := t.entries.lookup c

/-- `table.reversed[item]`: built by `dict(map(reversed, mapping.items()))`, so the LAST char
    mapped to an item wins. -/
def charOf? (t : ParseTable) (k : Tok) : Option Chr :=
  (t.entries.reverse.find? (fun e => e.2 == k)).map (·.1)

/-- decidable well-formedness of a parse table, relative to `LexType.maxi`:
    keys pairwise distinct (a `dict`), indexes within the class maxima (so that the
    `Variable/Constant/Atomic` constructors cannot raise `ValueError`), digit values < 10 (so that
    `int(''.join(map(str, digits)))` is the decimal value of as many digits as characters read). -/
def OK (t : ParseTable) (m : MaxIdx) : Bool :=
  (t.entries.map (·.1)).Nodup &&
  t.entries.all fun e =>
    match e.2 with
    | .var i => i ≤ m.var
    | .const i => i ≤ m.const
    | .pred i => i ≤ m.pred
    | .atom i => i ≤ m.atom
    | .digit d => d < 10
    | _ => true

end ParseTable

/-- A writer's string table (`StringTable`), restricted to the keys the sentence writers use.
    Strings are code-point lists.  `NotImplemented` entries are `none`. -/
structure StringTable where
  format : String
  notn : String
  dialect : String
  op1 : Op1 → List Chr
  op2 : Op2 → List Chr
  quant : Quant → List Chr
  identity : List Chr                    -- strings[Predicate.Identity]
  existence : List Chr                   -- strings[Predicate.Existence]
  negIdentity : Option (List Chr)        -- strings[(Operator.Negation, Predicate.Identity)]
  atom : List (List Chr)                 -- strings[(Atomic, i)], i = 0..
  var : List (List Chr)
  const : List (List Chr)
  pred : List (List Chr)
  parenOpen : Option (List Chr)
  parenClose : Option (List Chr)
  ws : List Chr
  subOpen : List Chr
  subClose : List Chr
  deriving Inhabited

namespace StringTable
/-- `strings[(cls, i)]`.  Every Python item has `i ≤ maxi`, and the extractor fails if an index
    `≤ maxi` has no entry (`Complete` below re-checks it), so the `[]` default is never used for
    a sentence that exists in Python. -/
def idx (l : List (List Chr)) (i : Nat) : List Chr := l.getD i []

def Complete (t : StringTable) (m : MaxIdx) : Bool :=
  t.atom.length == m.atom + 1 && t.var.length == m.var + 1 &&
  t.const.length == m.const + 1 && t.pred.length == m.pred + 1
end StringTable

/-! ### decimal digits (Python `str(int)` for a non-negative int, and `int(str)`) -/

def decDigitsF : Nat → Nat → List Nat
  | 0, _ => []
  | f+1, n => if n < 10 then [n] else decDigitsF f (n / 10) ++ [n % 10]

/-- the decimal digits of `n`, most significant first (`str(n)`, as digit values) -/
def decDigits (n : Nat) : List Nat := decDigitsF (n + 1) n

/-- `int(s)` of a digit-value list (leading zeros allowed, `[]` ↦ 0 — the `or 0` of the parser) -/
def horner (ds : List Nat) : Nat := ds.foldl (fun a d => 10 * a + d) 0

/-- ASCII digit character of a digit value (`str(n)` only ever produces these) -/
def digitChr (d : Nat) : Chr := 48 + d

end Ptx.Sym
