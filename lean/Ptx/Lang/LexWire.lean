/-
  Ptx.Lang.LexWire — token encoding of the non-sentence lexical items (extends Ptx/Wire.lean).

    item ::= P <idx> <sub> <arity>        Predicate
           | c <i> <s> | v <i> <s>        Constant / Variable
           | Q E|U                        Quantifier
           | O A|N|M|L|K|D|C|E|I|B        Operator
           | <sentence tokens of Ptx.Wire>  (a … | p … | q … | u … | b …)
  Python twin: harness/props/lexwire.py
-/
import Ptx.Wire
import Ptx.Lang.Order
namespace Ptx.Wire

def opTok (s : String) : Option Op :=
  match op1Tok s with
  | some o => some (.u o)
  | none => (op2Tok s).map .b

def Op.tok : Op → String
  | .u o => Op1.tok o
  | .b o => Op2.tok o

def parseItem : Toks → Option (Item × Toks)
  | "P" :: i :: s :: a :: r => do some (.pred ⟨← intTok i, ← natTok s, ← natTok a⟩, r)
  | "c" :: i :: s :: r => do some (.param (.const (← natTok i) (← natTok s)), r)
  | "v" :: i :: s :: r => do some (.param (.var (← natTok i) (← natTok s)), r)
  | "Q" :: q :: r => do some (.quant (← quantTok q), r)
  | "O" :: o :: r => do some (.op (← opTok o), r)
  | ts => do
    let (s, r) ← parseSent ts
    some (.sent s, r)

def showItem : Item → String
  | .pred p => s!"P {p.index} {p.sub} {p.arity}"
  | .param p => showParam p
  | .quant q => "Q " ++ Quant.tok q
  | .op o => "O " ++ Op.tok o
  | .sent s => showSent s

def showInts (l : List Int) : String := " ".intercalate (l.map toString)

end Ptx.Wire
