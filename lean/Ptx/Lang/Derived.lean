/-
  Ptx.Lang.Derived — substitution, instantiation, un-negation and the derived attributes of
  sentences, written as the Python recursion is written (lang/lex.py), plus INDEPENDENT
  specifications obtained from one flat prefix-order token walk of the sentence.
  Core Lean only.

  Python mirrored:
    Sentence.substitute (returns self)                       -> atom case
    Predicated.substitute / Quantified.substitute / Operated.substitute
        (each: `if pnew == pold: return self`; Quantified rebuilds with the SAME variable)
    Quantified.unquantify(c) = self.sentence.substitute(Constant(c), self.variable)
    Sentence.negative
    Atomic / Predicated / Quantified / Operated : predicates, constants, variables, atomics
        (frozensets), quantifiers, operators (tuples)
-/
import Ptx.Lang.Order
namespace Ptx

/-! ### the model: mirrors of the Python methods -/

namespace Sent

/-- `s.substitute(pnew, pold)` -/
def subst (new old : Param) : Sent → Sent
  | .atom i s => .atom i s
  | .pred p ps =>
      if new = old then .pred p ps
      else .pred p (ps.map fun x => if x = old then new else x)
  | .quant q vi vs b =>
      if new = old then .quant q vi vs b
      else .quant q vi vs (b.subst new old)
  | .op1 o a =>
      if new = old then .op1 o a else .op1 o (a.subst new old)
  | .op2 o a b =>
      if new = old then .op2 o a b else .op2 o (a.subst new old) (b.subst new old)

/-- `s.unquantify(c)`; only `Quantified` has the method (`none` = AttributeError) -/
def unquantify : Sent → (ci cs : Nat) → Option Sent
  | .quant _ vi vs b, ci, cs => some (b.subst (.const ci cs) (.var vi vs))
  | _, _, _ => none

/-- `s.negative()` -/
def negative : Sent → Sent
  | .op1 .neg a => a
  | s => .op1 .neg s

def isNeg : Sent → Bool
  | .op1 .neg _ => true
  | _ => false

end Sent

/-- frozenset union as duplicate-free list (left elements first) -/
def uni {α} [DecidableEq α] (xs ys : List α) : List α :=
  xs ++ ys.filter (fun y => !xs.contains y)

/-- `frozenset(iterable)` as a duplicate-free list (first occurrences) -/
def toSet {α} [DecidableEq α] : List α → List α
  | [] => []
  | x :: xs => x :: (toSet xs).filter (· ≠ x)

def Param.isConst : Param → Bool
  | .const _ _ => true | .var _ _ => false
def Param.isVar : Param → Bool
  | .const _ _ => false | .var _ _ => true

namespace Sent

/-- `s.constants` -/
def constants : Sent → List Param
  | .atom _ _ => []
  | .pred _ ps => toSet (ps.filter Param.isConst)
  | .quant _ _ _ b => b.constants
  | .op1 _ a => a.constants
  | .op2 _ a b => uni a.constants b.constants

/-- `s.variables` (the binder of a `Quantified` is NOT added: `return self.sentence.variables`) -/
def variables : Sent → List Param
  | .atom _ _ => []
  | .pred _ ps => toSet (ps.filter Param.isVar)
  | .quant _ _ _ b => b.variables
  | .op1 _ a => a.variables
  | .op2 _ a b => uni a.variables b.variables

/-- `s.predicates` -/
def predicates : Sent → List Pred
  | .atom _ _ => []
  | .pred p _ => [p]
  | .quant _ _ _ b => b.predicates
  | .op1 _ a => a.predicates
  | .op2 _ a b => uni a.predicates b.predicates

/-- `s.atomics` as (index, subscript) pairs -/
def atomics : Sent → List (Nat × Nat)
  | .atom i s => [(i, s)]
  | .pred _ _ => []
  | .quant _ _ _ b => b.atomics
  | .op1 _ a => a.atomics
  | .op2 _ a b => uni a.atomics b.atomics

/-- `s.operators` (prefix order) -/
def operators : Sent → List Op
  | .atom _ _ => []
  | .pred _ _ => []
  | .quant _ _ _ b => b.operators
  | .op1 o a => .u o :: a.operators
  | .op2 o a b => .b o :: (a.operators ++ b.operators)

/-- `s.quantifiers` (prefix order) -/
def quantifiers : Sent → List Quant
  | .atom _ _ => []
  | .pred _ _ => []
  | .quant q _ _ b => q :: b.quantifiers
  | .op1 _ a => a.quantifiers
  | .op2 _ a b => a.quantifiers ++ b.quantifiers

end Sent

/-! ### the independent specification: one prefix-order token walk -/

/-- what one meets when reading a sentence left to right in prefix order -/
inductive Tok where
  | atom  (i s : Nat)
  | pred  (p : Pred) (n : Nat)        -- the predicate and the number of parameters that follow
  | param (p : Param)                 -- a parameter occurrence (never a binder)
  | quant (q : Quant) (vi vs : Nat)   -- quantifier with its bound variable
  | op    (o : Op)
  deriving DecidableEq, Repr, Inhabited

/-- the flat walk -/
def Sent.walk : Sent → List Tok
  | .atom i s => [.atom i s]
  | .pred p ps => .pred p ps.length :: ps.map .param
  | .quant q vi vs b => .quant q vi vs :: b.walk
  | .op1 o a => .op (.u o) :: a.walk
  | .op2 o a b => .op (.b o) :: (a.walk ++ b.walk)

/-- parameter occurrences, left to right -/
def paramOccs (s : Sent) : List Param :=
  s.walk.filterMap fun | .param p => some p | _ => none
def preorderOps (s : Sent) : List Op :=
  s.walk.filterMap fun | .op o => some o | _ => none
def preorderQuants (s : Sent) : List Quant :=
  s.walk.filterMap fun | .quant q _ _ => some q | _ => none
def predOccs (s : Sent) : List Pred :=
  s.walk.filterMap fun | .pred p _ => some p | _ => none
def atomOccs (s : Sent) : List (Nat × Nat) :=
  s.walk.filterMap fun | .atom i s => some (i, s) | _ => none

/-- everything except the parameter occurrences -/
def skeleton (s : Sent) : List Tok :=
  s.walk.filter fun | .param _ => false | _ => true

/-- substitution on one token: only parameter occurrences equal to `old` change -/
def Tok.subst (new old : Param) : Tok → Tok
  | .param p => .param (if p = old then new else p)
  | t => t

end Ptx
