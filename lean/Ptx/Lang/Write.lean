/-
  Ptx.Lang.Write — the sentence writers of pytableaux (lang/writing.py) at token and at
  character level.  Core Lean only.

  A writer token (`WTok`) is one piece the Python writer concatenates: one `strings[key]` lookup,
  or one rendered subscript `strings[subscript_open] + str(n) + strings[subscript_close]`
  (`LexWriter._write_subscript`, emitted only for `n ≠ 0`).

    PolishLexWriter      -> polishToks
    StandardLexWriter    -> standardToks (options drop_parens, identity_infix, max_infix;
                            `__call__` drops the outer parens of a top-level `Operated` only)
    rendering            -> render : StringTable → List WTok → List Chr

  `str(n)` raises `ValueError` for `n ≥ 10^4300` (CPython's int→str digit limit): such a sentence
  exists but cannot be written.  The model writer is total; the theorems that depend on it carry
  the explicit hypothesis `SubsOK limit s` (every subscript has at most `limit` digits).
-/
import Ptx.Lang.Symbols
namespace Ptx.Write
open Ptx Ptx.Sym

inductive WTok where
  | op1 (o : Op1) | op2 (o : Op2) | quant (q : Quant)
  | identity | existence | negIdentity
  | atom (i : Nat) | var (i : Nat) | const (i : Nat) | pred (i : Nat)
  | sub (n : Nat)
  | parenOpen | parenClose | ws
  deriving DecidableEq, Repr, Inhabited

/-- `_write_subscript` -/
def subToks (n : Nat) : List WTok := if n = 0 then [] else [.sub n]

/-- `_write_coordsitem` for a parameter -/
def paramToks : Param → List WTok
  | .const i s => .const i :: subToks s
  | .var i s => .var i :: subToks s

/-- `_write(pred)`: `strings[pred]` succeeds for the two system predicates (keys
    `Predicate.Identity`, `Predicate.Existence`); user predicates go through `_write_coordsitem`. -/
def predToks (p : Pred) : List WTok :=
  if p.index = -1 then [.identity]
  else if p.index = -2 then [.existence]
  else .pred p.index.toNat :: subToks p.sub

def paramsToks (ps : List Param) : List WTok := ps.flatMap paramToks

/-- `PolishLexWriter._write` -/
def polishToks : Sent → List WTok
  | .atom i s => .atom i :: subToks s
  | .pred p ps => predToks p ++ paramsToks ps
  | .quant q vi vs b => .quant q :: .var vi :: (subToks vs ++ polishToks b)
  | .op1 o a => .op1 o :: polishToks a
  | .op2 o a b => .op2 o :: (polishToks a ++ polishToks b)

/-- `StandardLexWriter.opts` -/
structure StdOpts where
  dropParens : Bool := true
  identityInfix : Bool := true
  maxInfix : Nat := 0
  deriving DecidableEq, Repr, Inhabited

/-- `ws.join(parts)` at token level, `ws` one token -/
def joinWs : List (List WTok) → List WTok
  | [] => []
  | [x] => x
  | x :: y :: r => x ++ .ws :: joinWs (y :: r)

/-- `StandardLexWriter._write_predicated` -/
def stdPredToks (o : StdOpts) (p : Pred) (ps : List Param) : List WTok :=
  let shouldInfix := decide (p.arity > 1) && (decide (p.arity < o.maxInfix) || (decide (p.index = -1) && o.identityInfix))
  if !shouldInfix then predToks p ++ paramsToks ps
  else
    match ps with
    | [] => predToks p                      -- s[0] would raise IndexError; arity ≥ 2 excludes it
    | a :: r =>
      if p.index = -1 then joinWs [paramToks a, predToks p, paramsToks r]
      else paramToks a ++ predToks p ++ paramsToks r

/-- `StandardLexWriter._write` (inner sentences: binary operations always parenthesised) -/
def stdToksIn (o : StdOpts) : Sent → List WTok
  | .atom i s => .atom i :: subToks s
  | .pred p ps => stdPredToks o p ps
  | .quant q vi vs b => .quant q :: .var vi :: (subToks vs ++ stdToksIn o b)
  | .op1 op a =>
    match op, a with
    | .neg, .pred p [x, y] =>
      if p.index = -1 ∧ o.identityInfix then joinWs [paramToks x, [.negIdentity], paramToks y]
      else .op1 op :: stdToksIn o a
    | _, _ => .op1 op :: stdToksIn o a
  | .op2 op a b => .parenOpen :: (joinWs [stdToksIn o a, [.op2 op], stdToksIn o b] ++ [.parenClose])

/-- `StandardLexWriter.__call__` -/
def standardToks (o : StdOpts) (s : Sent) : List WTok :=
  match s with
  | .op2 op a b => if o.dropParens then joinWs [stdToksIn o a, [.op2 op], stdToksIn o b] else stdToksIn o s
  | _ => stdToksIn o s

/-! ### rendering through a string table -/

def renderTok (t : StringTable) : WTok → List Chr
  | .op1 o => t.op1 o
  | .op2 o => t.op2 o
  | .quant q => t.quant q
  | .identity => t.identity
  | .existence => t.existence
  | .negIdentity => t.negIdentity.getD []     -- `NotImplemented` in the polish tables, never emitted there
  | .atom i => StringTable.idx t.atom i
  | .var i => StringTable.idx t.var i
  | .const i => StringTable.idx t.const i
  | .pred i => StringTable.idx t.pred i
  | .sub n => t.subOpen ++ (decDigits n).map digitChr ++ t.subClose
  | .parenOpen => t.parenOpen.getD []         -- likewise
  | .parenClose => t.parenClose.getD []
  | .ws => t.ws

def render (t : StringTable) (ts : List WTok) : List Chr := ts.flatMap (renderTok t)

def writePolish (t : StringTable) (s : Sent) : List Chr := render t (polishToks s)
def writeStandard (t : StringTable) (o : StdOpts) (s : Sent) : List Chr := render t (standardToks o s)

/-- `':'.join(map(writer, argument))` — conclusion first, then the premises -/
def intercalate (sep : Chr) : List (List Chr) → List Chr
  | [] => []
  | [x] => x
  | x :: y :: r => x ++ sep :: intercalate sep (y :: r)

def argstr (t : StringTable) (a : Argument) : List Chr :=
  intercalate 58 ((a.conclusion :: a.premises).map (writePolish t))

/-! ### decidable side-conditions on tables -/

/-- the string is exactly one character and the parse table maps it to `k` -/
def symOK (pt : ParseTable) (s : List Chr) (k : Tok) : Bool :=
  match s with
  | [c] => pt.lookup c == some k
  | _ => false

def idxOK (pt : ParseTable) (l : List (List Chr)) (mk : Nat → Tok) : Bool :=
  (List.range l.length).all fun i => symOK pt (StringTable.idx l i) (mk i)

/-- Writer table `wt` and parser table `pt` agree on everything but the Existence predicate and
    the parentheses: every symbol the writer emits is one character that the parser reads back as
    the same item; subscripts are bare decimal digits; the ASCII digits are the parser's digits
    with their values; the writer's blank is parser whitespace. -/
def CompatCore (pt : ParseTable) (wt : StringTable) : Bool :=
  Op1.all.all (fun o => symOK pt (wt.op1 o) (.op1 o)) &&
  Op2.all.all (fun o => symOK pt (wt.op2 o) (.op2 o)) &&
  Quant.all.all (fun q => symOK pt (wt.quant q) (.quant q)) &&
  symOK pt wt.identity (.sysPred .identity) &&
  idxOK pt wt.atom .atom && idxOK pt wt.var .var && idxOK pt wt.const .const && idxOK pt wt.pred .pred &&
  (wt.subOpen == [] && wt.subClose == []) &&
  (List.range 10).all (fun d => pt.lookup (digitChr d) == some (.digit d)) &&
  symOK pt wt.ws .ws

/-- polish: additionally the Existence symbol is read back -/
def Compat (pt : ParseTable) (wt : StringTable) : Bool :=
  CompatCore pt wt && symOK pt wt.existence (.sysPred .existence)

/-- standard: additionally the parentheses are read back.  (The standard ascii writer renders
    Existence as `E!`, which the standard parser does NOT read back — `E` is an atomic there —
    so Existence sentences are outside the standard round trip.) -/
def CompatStd (pt : ParseTable) (wt : StringTable) : Bool :=
  CompatCore pt wt &&
  (match wt.parenOpen with | some s => symOK pt s .parenOpen | none => false) &&
  (match wt.parenClose with | some s => symOK pt s .parenClose | none => false)

def pairwiseB {α} (r : α → α → Bool) : List α → Bool
  | [] => true
  | x :: xs => xs.all (r x) && pairwiseB r xs

/-- the symbol strings of a table (operators, quantifiers, system predicates, the four indexed
    classes, parens, the negated-identity symbol) are nonempty and pairwise distinct -/
def symbolStrings (t : StringTable) : List (List Chr) :=
  Op1.all.map t.op1 ++ Op2.all.map t.op2 ++ Quant.all.map t.quant ++
  [t.identity, t.existence] ++ t.atom ++ t.var ++ t.const ++ t.pred ++
  t.parenOpen.toList ++ t.parenClose.toList ++ t.negIdentity.toList

def SymbolsDistinct (t : StringTable) : Bool :=
  (symbolStrings t).all (fun s => !s.isEmpty) && pairwiseB (fun a b => a != b) (symbolStrings t)

end Ptx.Write
