/-
  Ptx.Lang.ParseCtx — `ParseContext` and the notation-independent part of `DefaultParser`
  (lang/parsing.py l.205-583), with EVERY partial Python operation an explicit outcome.
  Core Lean only.

  State.  Python keeps `input`, `pos`, `bound`, and the parser's `predicates` store (which
  OUTLIVES a failing parse: auto-declared predicates leak).  The model keeps the unread suffix
  `rest = input[pos:]` instead of `(input, pos)`; `pos` itself is only used in messages and in
  position comparisons of the standard parser, which are expressed through `rest.length`
  (`pos = len(input) − rest.length`).

  Outcomes.  `Res α = ok a st | perr st | crash k st` — the state is kept in all three because
  (i) the store mutations survive, (ii) `ParseContext.__exit__` decides by the unread input
  whether an exception is replaced by `ParseError`.

  Crash kinds = Python exception classes other than ParseError (DESIGN Appendix B):
    key        KeyError        `table[char]` in `type(char)` / `value(char)` without default
    index      IndexError      `input[pos]` in `_unexp_msg` past the end
    value      ValueError      `int()` of more than `sys.get_int_max_str_digits()` digits;
                               `Variable/Constant/Atomic(index > maxi)`
    conflict   ValueError      `Predicates.add` of a predicate conflicting with a stored one
    attr       AttributeError  `Predicates.Frozen` has no `add`
    type       TypeError       a non-integer used as an index coordinate
    recursion  RecursionError  more nested `_read` activations than `fuel`
    fuel       (model only)    the `_read_params_auto` loop ran out of its length-of-input fuel;
                               proved unreachable
-/
import Ptx.Lang.Symbols
namespace Ptx.Parse
open Ptx Ptx.Sym

/-! ### the predicate store (`Predicates`, restricted to what the parsers use) -/

structure Store where
  preds : List Pred            -- user predicates, insertion order
  frozen : Bool := false       -- a `Predicates.Frozen` (no `add`)
  deriving DecidableEq, Repr, Inhabited

def Store.empty : Store := ⟨[], false⟩

instance : EmptyCollection Store := ⟨Store.empty⟩

/-- `predicates.get(BiCoords(i, s))`: lookup by symbol coordinates.  (`Predicate.System[ref]` is
    tried second by Python and never matches a `BiCoords` with `index ≥ 0`.) -/
def Store.get (st : Store) (i s : Nat) : Option Pred :=
  st.preds.find? fun p => p.index == (i : Int) && p.sub == s

inductive Kind where
  | key | index | value | conflict | attr | type | recursion | fuel
  deriving DecidableEq, Repr, Inhabited

def Kind.name : Kind → String
  | .key => "KeyError" | .index => "IndexError" | .value => "ValueError"
  | .conflict => "ValueError:conflict" | .attr => "AttributeError" | .type => "TypeError"
  | .recursion => "RecursionError" | .fuel => "ModelFuel"

/-- `predicates.add(pred)` (`qset.add` with the `_hook_check` conflict test) -/
def Store.add (st : Store) (p : Pred) : Except Kind Store :=
  if st.frozen then .error .attr
  else match st.preds.find? (fun q => q.index == p.index && q.sub == p.sub) with
    | some q => if q = p then .ok st else .error .conflict
    | none => .ok { st with preds := st.preds ++ [p] }

/-- no two stored predicates share symbol coordinates (the invariant `Predicates` maintains) -/
def Store.Consistent (st : Store) : Prop :=
  ∀ p ∈ st.preds, ∀ q ∈ st.preds, p.index = q.index → p.sub = q.sub → p = q

/-! ### configuration -/

structure Cfg where
  table : ParseTable
  maxi : MaxIdx
  autoPreds : Bool := true          -- opts['auto_preds']
  dropParens : Bool := true         -- opts['drop_parens'] (standard parser)
  intMaxDigits : Nat := 4300        -- sys.get_int_max_str_digits(); 0 = unlimited
  /-- the candidate fix tools/fix_C13_1.diff: `DefaultParser.__call__` re-raises
      ValueError / RecursionError as ParseError -/
  guardEntry : Bool := true
  deriving Inhabited

/-! ### state and outcomes -/

abbrev Var := Nat × Nat

structure PState where
  rest : List Chr
  bound : List Var
  store : Store
  deriving DecidableEq, Repr, Inhabited

inductive Res (α : Type) where
  | ok (a : α) (st : PState)
  | perr (st : PState)
  | crash (k : Kind) (st : PState)
  deriving DecidableEq, Repr, Inhabited

@[inline] def Res.andThen {α β} (r : Res α) (f : α → PState → Res β) : Res β :=
  match r with
  | .ok a st => f a st
  | .perr st => .perr st
  | .crash k st => .crash k st

@[simp] theorem Res.andThen_ok {α β} (a : α) (st) (f : α → PState → Res β) : (Res.ok a st).andThen f = f a st := rfl
@[simp] theorem Res.andThen_perr {α β} (st) (f : α → PState → Res β) : (Res.perr st : Res α).andThen f = .perr st := rfl
@[simp] theorem Res.andThen_crash {α β} (k st) (f : α → PState → Res β) : (Res.crash k st : Res α).andThen f = .crash k st := rfl

/-- the public result of one `parser(input)` call -/
inductive Outcome where
  | ok (s : Sent) (store : Store)
  | perr (store : Store)
  | crash (k : Kind) (store : Store)
  deriving DecidableEq, Repr, Inhabited

def Outcome.store : Outcome → Store
  | .ok _ st => st | .perr st => st | .crash _ st => st

/-- consecutive calls on ONE parser object: the only thing a call leaves behind is the store -/
def parseSeq (parse : Store → List Chr → Outcome) : Store → List (List Chr) → List Outcome
  | _, [] => []
  | st, x :: xs => parse st x :: parseSeq parse (parse st x).store xs

/-! ### ParseContext operations -/

/-- `chomp()`: skip characters whose type is `Marking.whitespace` -/
def chomp (t : ParseTable) : List Chr → List Chr
  | [] => []
  | c :: r => if t.lookup c = some .ws then chomp t r else c :: r

/-- `advance()`: `pos += 1; chomp()`.  Only ever called with a current character. -/
def advance (t : ParseTable) (st : PState) : PState := { st with rest := chomp t st.rest.tail }

def chompSt (t : ParseTable) (st : PState) : PState := { st with rest := chomp t st.rest }

/-- `raise ParseError(self._unexp_msg())`: `_unexp_msg` evaluates `input[pos]` first -/
def unexp {α} (st : PState) : Res α :=
  match st.rest with
  | [] => .crash .index st
  | _ :: _ => .perr st

/-- The `while` loop of `_read_subscript`.  `advance()`'s chomp is fused into the loop: after a
    digit has been consumed (`skip = true`) whitespace is skipped; before the first digit
    (`skip = false`) a whitespace character is simply "not a digit".  Returns the digit VALUES in
    order and the unread input. -/
def digitsLoop (t : ParseTable) : Bool → List Chr → List Nat × List Chr
  | _, [] => ([], [])
  | skip, c :: r =>
    match t.lookup c with
    | some (.digit d) => (d :: (digitsLoop t true r).1, (digitsLoop t true r).2)
    | some .ws => if skip then digitsLoop t true r else ([], c :: r)
    | _ => ([], c :: r)

/-- `_read_subscript`: `int(''.join(map(str, digits)) or 0)`; with digit values < 10
    (`ParseTable.OK`) the string has one character per digit read. -/
def readSubscript (cfg : Cfg) (st : PState) : Res Nat :=
  let dr := digitsLoop cfg.table false st.rest
  let st' := { st with rest := dr.2 }
  if cfg.intMaxDigits ≠ 0 ∧ dr.1.length > cfg.intMaxDigits then .crash .value st'
  else .ok (horner dr.1) st'

/-- `_read_coords`: `index = value(current()); advance(); BiCoords(index, _read_subscript())` -/
def readCoords (cfg : Cfg) (st : PState) : Res (Nat × Nat) :=
  match st.rest with
  | [] => .crash .key st
  | c :: _ =>
    match cfg.table.lookup c with
    | none => .crash .key st
    | some tok =>
      match tok.index? with
      | none => .crash .type st
      | some i => (readSubscript cfg (advance cfg.table st)).andThen fun sub st' => .ok (i, sub) st'

/-- `_read_parameter` -/
def readParameter (cfg : Cfg) (st : PState) : Res Param :=
  match st.rest with
  | [] => .perr st                                   -- assert_current: end of input
  | c :: _ =>
    match cfg.table.lookup c with
    | some (.const _) =>
      (readCoords cfg st).andThen fun is st' =>
        if is.1 > cfg.maxi.const then .crash .value st' else .ok (.const is.1 is.2) st'
    | some (.var _) =>
      (readCoords cfg st).andThen fun is st' =>
        if is.1 > cfg.maxi.var then .crash .value st'
        else if is ∈ st'.bound then .ok (.var is.1 is.2) st' else .perr st'   -- check_bound
    | _ => unexp st

/-- `_read_params(context, num)` -/
def readParams (cfg : Cfg) : Nat → PState → Res (List Param)
  | 0, st => .ok [] st
  | n+1, st =>
    (readParameter cfg st).andThen fun p st1 =>
      (readParams cfg n st1).andThen fun ps st2 => .ok (p :: ps) st2

def isParamStart (cfg : Cfg) (st : PState) : Bool :=
  match st.rest with
  | [] => false
  | c :: _ => match cfg.table.lookup c with
    | some k => k.isParam
    | none => false

/-- `_read_params_auto`: `while type(current(), None) in {Constant, Variable}: read`.
    Loop fuel = length of the unread input at loop entry (each iteration consumes ≥ 1 char). -/
def readParamsAuto (cfg : Cfg) : Nat → PState → Res (List Param)
  | fuel, st =>
    if isParamStart cfg st then
      match fuel with
      | 0 => .crash .fuel st
      | f+1 =>
        (readParameter cfg st).andThen fun p st1 =>
          (readParamsAuto cfg f st1).andThen fun ps st2 => .ok (p :: ps) st2
    else .ok [] st

/-- `_read_predicate`: a stored / system predicate (`inl`), or the coordinates carried by the
    `UndefinedPredicateError` (`inr`). -/
def readPredicate (cfg : Cfg) (st : PState) : Res (Pred ⊕ (Nat × Nat)) :=
  match st.rest with
  | [] => .crash .key st
  | c :: _ =>
    match cfg.table.lookup c with
    | none => .crash .key st
    | some (.sysPred sp) => .ok (.inl sp.toPred) (advance cfg.table st)
    | some _ =>
      (readCoords cfg st).andThen fun is st' =>
        match st'.store.get is.1 is.2 with
        | some p => .ok (.inl p) st'
        | none => .ok (.inr is) st'

/-- the auto-declaration tail shared by `_read_predicated` and `_read_infix_predicated`:
    `Predicate(*coords, arity)` (ValueError → ParseError), `predicates.add`, `pred(params)` -/
def declare (cfg : Cfg) (is : Nat × Nat) (ps : List Param) (st : PState) : Res Sent :=
  if ps.length = 0 ∨ is.1 > cfg.maxi.pred then .perr st
  else
    let p : Pred := ⟨(is.1 : Int), is.2, ps.length⟩
    match st.store.add p with
    | .error k => .crash k st
    | .ok store' => .ok (.pred p ps) { st with store := store' }

/-- `_read_predicated` -/
def readPredicated (cfg : Cfg) (st : PState) : Res Sent :=
  (readPredicate cfg st).andThen fun r st1 =>
    match r with
    | .inl p => (readParams cfg p.arity st1).andThen fun ps st2 => .ok (.pred p ps) st2
    | .inr is =>
      if !cfg.autoPreds then .perr st1
      else (readParamsAuto cfg st1.rest.length st1).andThen fun ps st2 => declare cfg is ps st2

/-- the variables occurring in a sentence (`Sentence.variables`) -/
def paramVars : List Param → List Var
  | [] => []
  | .var i s :: r => (i, s) :: paramVars r
  | .const _ _ :: r => paramVars r

def sentVars : Sent → List Var
  | .atom _ _ => []
  | .pred _ ps => paramVars ps
  | .quant _ _ _ b => sentVars b
  | .op1 _ a => sentVars a
  | .op2 _ a b => sentVars a ++ sentVars b

/-- `_read_quantified`, given the recursive `_read` -/
def readQuantified (cfg : Cfg) (read : PState → Res Sent) (q : Quant) (st : PState) : Res Sent :=
  let st1 := advance cfg.table st
  match st1.rest with
  | [] => .perr st1                                   -- assert_current_is(Variable): end of input
  | c :: _ =>
    match cfg.table.lookup c with
    | some (.var _) =>
      (readCoords cfg st1).andThen fun v st2 =>
        if v.1 > cfg.maxi.var then .crash .value st2
        else if v ∈ st2.bound then .perr st2           -- bind: BoundVariableError
        else
          (read { st2 with bound := v :: st2.bound }).andThen fun body st3 =>
            if v ∉ st3.bound then .perr st3            -- unbind → check_bound
            else if v ∉ sentVars body then .perr st3   -- unused bound variable
            else .ok (.quant q v.1 v.2 body) { st3 with bound := st3.bound.erase v }
    | _ => unexp st1

/-- `_read_atomic` -/
def readAtomic (cfg : Cfg) (st : PState) : Res Sent :=
  (readCoords cfg st).andThen fun is st' =>
    if is.1 > cfg.maxi.atom then .crash .value st' else .ok (.atom is.1 is.2) st'

/-! ### `with ParseContext(...) as context: return self._read(context)` -/

/-- `__exit__` → `close()` → `chomp(); assert_end()`: a `ParseError` raised by `close()` REPLACES
    whatever left the body; otherwise the body's exception (or value) stands. -/
def exitCtx (t : ParseTable) (r : Res Sent) : Outcome :=
  match r with
  | .ok s st => if chomp t st.rest = [] then .ok s st.store else .perr st.store
  | .perr st => .perr st.store
  | .crash k st => if chomp t st.rest = [] then .crash k st.store else .perr st.store

/-- exception classes the candidate fix converts: `except (ValueError, RecursionError)` -/
def Kind.guarded : Kind → Bool
  | .value | .conflict | .recursion => true
  | _ => false

def guard (cfg : Cfg) (o : Outcome) : Outcome :=
  match o with
  | .crash k st => if cfg.guardEntry && k.guarded then .perr st else o
  | _ => o

/-- `DefaultParser.__call__` for a given `_read` -/
def callDefault (cfg : Cfg) (read : Nat → PState → Res Sent) (fuel : Nat) (store : Store)
    (input : List Chr) : Outcome :=
  guard cfg (exitCtx cfg.table (read fuel ⟨chomp cfg.table input, [], store⟩))

end Ptx.Parse
