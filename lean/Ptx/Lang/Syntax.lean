/-
  Ptx.Lang.Syntax — the lexical items of pytableaux (lang/lex.py) as plain data.
  Core Lean only (no Mathlib): this file is imported by the compiled driver.

  Python types mirrored:
    Constant(index, subscript), Variable(index, subscript)      -> Param
    Predicate(index, subscript, arity)  (index −1 Identity, −2 Existence) -> Pred
    Operator (10 members, 4 unary + 6 binary)                    -> Op1 / Op2
    Quantifier (Existential, Universal)                          -> Quant
    Atomic / Predicated / Quantified / Operated                  -> Sent
-/
namespace Ptx

inductive Param where
  | const (index sub : Nat)
  | var   (index sub : Nat)
  deriving DecidableEq, Repr, Inhabited

structure Pred where
  index : Int
  sub   : Nat
  arity : Nat
  deriving DecidableEq, Repr, Inhabited

def Pred.identity  : Pred := ⟨-1, 0, 2⟩
def Pred.existence : Pred := ⟨-2, 0, 1⟩

/-- unary operators, in the order of `Operator` (Assertion, Negation, Possibility, Necessity) -/
inductive Op1 where
  | asrt | neg | poss | nec
  deriving DecidableEq, Repr, Inhabited

/-- binary operators, in the order of `Operator` -/
inductive Op2 where
  | conj | disj | mcond | mbicond | cond | bicond
  deriving DecidableEq, Repr, Inhabited

inductive Quant where
  | ex | univ
  deriving DecidableEq, Repr, Inhabited

inductive Sent where
  | atom  (index sub : Nat)
  | pred  (p : Pred) (params : List Param)
  | quant (q : Quant) (vi vs : Nat) (body : Sent)
  | op1   (o : Op1) (a : Sent)
  | op2   (o : Op2) (a b : Sent)
  deriving DecidableEq, Repr, Inhabited

namespace Op1
def order : Op1 → Nat
  | asrt => 10 | neg => 20 | poss => 90 | nec => 100
def isModal : Op1 → Bool
  | poss => true | nec => true | _ => false
def all : List Op1 := [asrt, neg, poss, nec]
def name : Op1 → String
  | asrt => "Assertion" | neg => "Negation" | poss => "Possibility" | nec => "Necessity"
end Op1

namespace Op2
def order : Op2 → Nat
  | conj => 30 | disj => 40 | mcond => 50 | mbicond => 60 | cond => 70 | bicond => 80
def all : List Op2 := [conj, disj, mcond, mbicond, cond, bicond]
def name : Op2 → String
  | conj => "Conjunction" | disj => "Disjunction" | mcond => "MaterialConditional"
  | mbicond => "MaterialBiconditional" | cond => "Conditional" | bicond => "Biconditional"
end Op2

namespace Quant
def order : Quant → Nat
  | ex => 0 | univ => 1
def all : List Quant := [ex, univ]
def name : Quant → String
  | ex => "Existential" | univ => "Universal"
end Quant

namespace Sent
def neg (s : Sent) : Sent := .op1 .neg s

/-- number of constructors; the usual structural size -/
def size : Sent → Nat
  | atom _ _ => 1
  | pred _ _ => 1
  | quant _ _ _ b => b.size + 1
  | op1 _ a => a.size + 1
  | op2 _ a b => a.size + b.size + 1

theorem size_pos (s : Sent) : 0 < s.size := by cases s <;> simp [size]
end Sent

/-- An argument: premises and a conclusion (lang/collect.py Argument) -/
structure Argument where
  premises   : List Sent
  conclusion : Sent
  deriving DecidableEq, Repr, Inhabited

end Ptx
