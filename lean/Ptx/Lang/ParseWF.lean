/-
  Ptx.Lang.ParseWF — the decidable well-formedness predicates in which C12/C13 are stated:
  "the parsers' language" = closed, non-vacuous, no variable re-bound inside its own scope,
  every predicate applied to exactly its arity of parameters, indexes within `LexType.maxi`,
  one arity per predicate symbol.  Core Lean only; everything is `Bool`-valued.
-/
import Ptx.Lang.ParseCtx
namespace Ptx.Parse
open Ptx Ptx.Sym

/-- a parameter is well-formed under the bound variables `b`: index within range, a variable is
    bound -/
def paramOK (m : MaxIdx) (b : List Var) : Param → Bool
  | .const i _ => i ≤ m.const
  | .var i s => decide (i ≤ m.var) && decide ((i, s) ∈ b)

/-- a constructible predicate: one of the two system predicates, or a user predicate
    `0 ≤ index ≤ maxi`, `arity > 0` -/
def predOK (m : MaxIdx) (p : Pred) : Bool :=
  p == Pred.identity || p == Pred.existence ||
    (decide (0 ≤ p.index) && decide (p.index ≤ (m.pred : Int)) && decide (0 < p.arity))

/-- `wfIn m b s`: under enclosing bound variables `b`, `s` is
    * closed relative to `b` — every variable occurrence is in `b` or bound by an enclosing quantifier of `s`;
    * non-vacuous — every quantifier's variable occurs in its body;
    * not re-binding — no quantifier binds a variable that is already bound where it stands
      (so each occurrence is bound by exactly ONE enclosing quantifier);
    * arity-correct — `params.length = arity`;
    * index-correct. -/
def wfIn (m : MaxIdx) : List Var → Sent → Bool
  | _, .atom i _ => i ≤ m.atom
  | b, .pred p ps => predOK m p && ps.length == p.arity && ps.all (paramOK m b)
  | b, .quant _ vi vs body =>
    decide (vi ≤ m.var) && !decide ((vi, vs) ∈ b) && decide ((vi, vs) ∈ sentVars body) &&
      wfIn m ((vi, vs) :: b) body
  | b, .op1 _ a => wfIn m b a
  | b, .op2 _ a c => wfIn m b a && wfIn m b c

/-- the sentence well-formedness of C12/C13 (no enclosing binder) -/
def WF (m : MaxIdx) (s : Sent) : Bool := wfIn m [] s

/-- nesting depth = number of nested `_read` activations needed to read the sentence -/
def depth : Sent → Nat
  | .atom _ _ => 1
  | .pred _ _ => 1
  | .quant _ _ _ b => depth b + 1
  | .op1 _ a => depth a + 1
  | .op2 _ a b => max (depth a) (depth b) + 1

/-- user predicates in reading (prefix) order -/
def userPreds : Sent → List Pred
  | .atom _ _ => []
  | .pred p _ => if p.index < 0 then [] else [p]
  | .quant _ _ _ b => userPreds b
  | .op1 _ a => userPreds a
  | .op2 _ a b => userPreds a ++ userPreds b

/-- one arity per predicate symbol -/
def ConsistentPreds (l : List Pred) : Prop :=
  ∀ p ∈ l, ∀ q ∈ l, p.index = q.index → p.sub = q.sub → p = q

instance (l : List Pred) : Decidable (ConsistentPreds l) := by
  unfold ConsistentPreds; infer_instance

/-- the store after reading `s` with auto-declaration: undeclared predicates appended in order -/
def storeAfter (st : Store) : Sent → Store
  | .atom _ _ => st
  | .pred p _ =>
    if p.index < 0 then st
    else match st.get p.index.toNat p.sub with
      | some _ => st
      | none => { st with preds := st.preds ++ [p] }
  | .quant _ _ _ b => storeAfter st b
  | .op1 _ a => storeAfter st a
  | .op2 _ a b => storeAfter (storeAfter st a) b

/-- every subscript has at most `limit` digits (what `int()` / `str()` accept); 0 = unlimited -/
def subOK (limit n : Nat) : Bool := limit == 0 || decide ((decDigits n).length ≤ limit)

def paramSubOK (limit : Nat) : Param → Bool
  | .const _ s => subOK limit s
  | .var _ s => subOK limit s

def subsOK (limit : Nat) : Sent → Bool
  | .atom _ s => subOK limit s
  | .pred p ps => subOK limit p.sub && ps.all (paramSubOK limit)
  | .quant _ _ vs b => subOK limit vs && subsOK limit b
  | .op1 _ a => subsOK limit a
  | .op2 _ a b => subsOK limit a && subsOK limit b

/-- what Python guarantees of every `Predicates` store: constructible user predicates only -/
def Store.OK (m : MaxIdx) (st : Store) : Prop :=
  ∀ p ∈ st.preds, 0 ≤ p.index ∧ p.index ≤ (m.pred : Int) ∧ 0 < p.arity

end Ptx.Parse

namespace Ptx.Parse
open Ptx Ptx.Sym

/-! ### the well-formedness of C12/C13, property by property (`wfIn_iff` ties them to `wfIn`) -/

/-- closed: every variable occurrence is in `b` or bound by an enclosing quantifier -/
def closedIn : List Var → Sent → Bool
  | _, .atom _ _ => true
  | b, .pred _ ps => (paramVars ps).all fun v => decide (v ∈ b)
  | b, .quant _ vi vs body => closedIn ((vi, vs) :: b) body
  | b, .op1 _ a => closedIn b a
  | b, .op2 _ a c => closedIn b a && closedIn b c

/-- non-vacuous: each quantifier's variable occurs in its scope -/
def nonVacuous : Sent → Bool
  | .atom _ _ => true
  | .pred _ _ => true
  | .quant _ vi vs body => decide ((vi, vs) ∈ sentVars body) && nonVacuous body
  | .op1 _ a => nonVacuous a
  | .op2 _ a c => nonVacuous a && nonVacuous c

/-- no quantifier re-binds a variable inside that variable's own scope (so an occurrence is bound
    by exactly one enclosing quantifier) -/
def noRebind : List Var → Sent → Bool
  | _, .atom _ _ => true
  | _, .pred _ _ => true
  | b, .quant _ vi vs body => !decide ((vi, vs) ∈ b) && noRebind ((vi, vs) :: b) body
  | b, .op1 _ a => noRebind b a
  | b, .op2 _ a c => noRebind b a && noRebind b c

/-- every predicate is applied to exactly its arity of parameters -/
def arityOK : Sent → Bool
  | .atom _ _ => true
  | .pred p ps => ps.length == p.arity
  | .quant _ _ _ body => arityOK body
  | .op1 _ a => arityOK a
  | .op2 _ a c => arityOK a && arityOK c

def paramIdxOK (m : MaxIdx) : Param → Bool
  | .const i _ => i ≤ m.const
  | .var i _ => i ≤ m.var

/-- indexes 0..max, predicates constructible -/
def indexOK (m : MaxIdx) : Sent → Bool
  | .atom i _ => i ≤ m.atom
  | .pred p ps => predOK m p && ps.all (paramIdxOK m)
  | .quant _ vi _ body => decide (vi ≤ m.var) && indexOK m body
  | .op1 _ a => indexOK m a
  | .op2 _ a c => indexOK m a && indexOK m c

end Ptx.Parse
