/-
  Ptx.Lang.Order — the nine lexical types as one sum type `Item`, their `sort_tuple`
  (`sortKey`), the comparison `Lexical.orderitems` (`cmpDiff`: zip_longest with fill 0,
  first non-zero difference), the rich comparison operators, `hashitem`, and the ordering
  of `Argument` (lang/collect.py).   Core Lean only.

  Python mirrored (lang/lex.py):
    _Ranks                                   -> LexType.rank
    CoordsItem.__new__  sort_tuple = (rank, *spec.sorting())  with sorting() = (subscript, index[, arity])
    LexicalEnum.__init__ sort_tuple = (rank, order)
    Predicated.__init__ sort_tuple = (rank, *pred.sort_tuple, *(n for p in params for n in p.sort_tuple))
    Quantified.__init__ sort_tuple = (rank, *q.sort_tuple, *v.sort_tuple, *s.sort_tuple)
    Operated.__init__   sort_tuple = (rank, *oper.sort_tuple, *(n for s in operands for n in s.sort_tuple))
    Lexical.orderitems / hashitem, the operator wrapper (oper(orderitems(a,b), 0))
    collect.Argument comparison wrapper
-/
import Ptx.Lang.Syntax
namespace Ptx

/-- `Operator`: 4 unary + 6 binary members -/
inductive Op where
  | u (o : Op1)
  | b (o : Op2)
  deriving DecidableEq, Repr, Inhabited

namespace Op
def order : Op → Nat
  | u o => o.order | b o => o.order
def arity : Op → Nat
  | u _ => 1 | b _ => 2
def name : Op → String
  | u o => o.name | b o => o.name
def all : List Op := Op1.all.map u ++ Op2.all.map b
end Op

/-- the nine concrete lexical types (`LexType`) -/
inductive LexType where
  | tPred | tConst | tVar | tQuant | tOp | tAtomic | tPredicated | tQuantified | tOperated
  deriving DecidableEq, Repr, Inhabited

namespace LexType
/-- `_Ranks` -/
def rank : LexType → Nat
  | tPred => 10 | tConst => 20 | tVar => 30 | tQuant => 40 | tOp => 50
  | tAtomic => 60 | tPredicated => 70 | tQuantified => 80 | tOperated => 90
def name : LexType → String
  | tPred => "Predicate" | tConst => "Constant" | tVar => "Variable"
  | tQuant => "Quantifier" | tOp => "Operator" | tAtomic => "Atomic"
  | tPredicated => "Predicated" | tQuantified => "Quantified" | tOperated => "Operated"
def all : List LexType :=
  [tPred, tConst, tVar, tQuant, tOp, tAtomic, tPredicated, tQuantified, tOperated]
end LexType

/-- a lexical item of any of the nine types -/
inductive Item where
  | pred  (p : Pred)
  | param (p : Param)
  | quant (q : Quant)
  | op    (o : Op)
  | sent  (s : Sent)
  deriving DecidableEq, Repr, Inhabited

def Param.type : Param → LexType
  | .const _ _ => .tConst | .var _ _ => .tVar
def Sent.type : Sent → LexType
  | .atom _ _ => .tAtomic | .pred _ _ => .tPredicated | .quant _ _ _ _ => .tQuantified
  | .op1 _ _ => .tOperated | .op2 _ _ _ => .tOperated
def Item.type : Item → LexType
  | .pred _ => .tPred | .param p => p.type | .quant _ => .tQuant
  | .op _ => .tOp | .sent s => s.type

/-! ### well-formedness: what the constructors enforce -/

/-- `Predicated.__init__`: `len(params) == pred.arity` (TypeError otherwise) -/
def Sent.ArityOK : Sent → Bool
  | .atom _ _ => true
  | .pred p ps => ps.length == p.arity
  | .quant _ _ _ b => b.ArityOK
  | .op1 _ a => a.ArityOK
  | .op2 _ a b => a.ArityOK && b.ArityOK

/-- items for which the order theorems are stated: sentences with matching arities -/
def Item.WF : Item → Bool
  | .sent s => s.ArityOK
  | _ => true

/-! ### sort_tuple -/

def Param.key : Param → List Int
  | .const i s => [20, s, i]
  | .var i s => [30, s, i]

def Pred.key (p : Pred) : List Int := [10, p.sub, p.index, p.arity]

def Quant.key (q : Quant) : List Int := [40, q.order]
def Op.key (o : Op) : List Int := [50, o.order]

def paramsKey : List Param → List Int
  | [] => []
  | p :: ps => p.key ++ paramsKey ps

def Sent.key : Sent → List Int
  | .atom i s => [60, s, i]
  | .pred p ps => 70 :: (p.key ++ paramsKey ps)
  | .quant q vi vs b => 80 :: 40 :: (q.order : Int) :: 30 :: (vs : Int) :: (vi : Int) :: b.key
  | .op1 o a => 90 :: 50 :: (o.order : Int) :: a.key
  | .op2 o a b => 90 :: 50 :: (o.order : Int) :: (a.key ++ b.key)

/-- `item.sort_tuple` -/
def sortKey : Item → List Int
  | .pred p => p.key
  | .param p => p.key
  | .quant q => q.key
  | .op o => o.key
  | .sent s => s.key

/-! ### orderitems -/

/-- first non-zero entry, else 0 (what remains of zip_longest once one side is exhausted) -/
def firstNZ : List Int → Int
  | [] => 0
  | x :: xs => if x ≠ 0 then x else firstNZ xs

/-- `Lexical.orderitems` on two sort tuples:
    `for cmp in filter(None, starmap(sub, zip_longest(l, r, fillvalue=0))): return cmp; return 0` -/
def cmpDiff : List Int → List Int → Int
  | xs, [] => firstNZ xs
  | [], ys => - firstNZ ys
  | x :: xs, y :: ys => if x ≠ y then x - y else cmpDiff xs ys

def ordOfInt (d : Int) : Ordering := if d < 0 then .lt else if d = 0 then .eq else .gt

/-- the comparison as an `Ordering` -/
def cmpKeys (k l : List Int) : Ordering := ordOfInt (cmpDiff k l)

/-- `Lexical.orderitems(lhs, rhs)` (the `lhs is rhs` shortcut returns the same 0) -/
def orderitems (x y : Item) : Int := cmpDiff (sortKey x) (sortKey y)

def Item.cmp (x y : Item) : Ordering := cmpKeys (sortKey x) (sortKey y)

/-- the operator wrapper `oper(orderitems(self, other), 0)` -/
def Item.lt (x y : Item) : Bool := orderitems x y < 0
def Item.le (x y : Item) : Bool := orderitems x y ≤ 0
def Item.gt (x y : Item) : Bool := orderitems x y > 0
def Item.ge (x y : Item) : Bool := orderitems x y ≥ 0
/-- `__eq__` (for two enum members `LexicalEnum.__eq__` answers by identity; the members'
    sort tuples are pairwise different, so this is the same function) -/
def Item.eqv (x y : Item) : Bool := orderitems x y = 0

/-- `hashitem`: `hash((Lexical, item.sort_tuple))`; `H` stands for CPython's tuple hash -/
def hashOf (H : List Int → UInt64) (x : Item) : UInt64 := H (sortKey x)

/-- insertion sort by `orderitems` (what `sorted` computes, up to stability, which is
    invisible on a total order whose equivalence is equality) -/
def insertItem (x : Item) : List Item → List Item
  | [] => [x]
  | y :: ys => if orderitems x y ≤ 0 then x :: y :: ys else y :: insertItem x ys
def sortItems : List Item → List Item
  | [] => []
  | x :: xs => insertItem x (sortItems xs)

/-! ### Argument (lang/collect.py) -/

/-- `Argument.seq = (conclusion, *premises)` -/
def Argument.seq (a : Argument) : List Sent := a.conclusion :: a.premises

/-- `for cmp in starmap(Lexical.orderitems, zip(self, other)): if cmp: break` -/
def seqCmp : List Sent → List Sent → Int
  | x :: xs, y :: ys =>
    let c := cmpDiff x.key y.key
    if c ≠ 0 then c else seqCmp xs ys
  | _, _ => 0

/-- the comparison wrapper of `Argument`: length first, then pairwise `orderitems` -/
def argCmp (a b : Argument) : Int :=
  let d : Int := (a.seq.length : Int) - (b.seq.length : Int)
  if d ≠ 0 then d else seqCmp a.seq b.seq

def Argument.ArityOK (a : Argument) : Bool := a.seq.all Sent.ArityOK

/-- `Argument.hash = hash(self.seq)`: a function of the sentence hashes -/
def argHash (H : List Int → UInt64) (T : List UInt64 → UInt64) (a : Argument) : UInt64 :=
  T (a.seq.map fun s => hashOf H (.sent s))

end Ptx
