/-
  Ptx.Sem.Spec — the DOCUMENTED / LITERATURE semantics of every pytableaux logic, as an
  independent oracle for property C07 ("each logic's truth tables are the documented ones").

  Nothing here is produced by running or copying pytableaux's truth functions.  Sources:

  * the prose and defining formulas of /repo/doc/logics/*.rst and /repo/doc/logics/include/**
    (the rendered truth tables of the doc pages are generated from the code at doc-build time,
    so the .rst sources carry only prose + defining formulas; those are what is transcribed);
  * the literature cited by those pages:
      - Belnap / Dunn four-valued semantics for FDE  (Anderson & Belnap, Entailment;
        Priest, An Introduction to Non-Classical Logic (INCL) 2nd ed. §8.2–8.4, §22 (quantifiers),
        §11a (modal many-valued));  Beall & van Fraassen, Possibilities and Paradox;
      - Kleene strong / weak three-valued tables (Kleene 1952 §64; Priest INCL §7.3);
      - Priest's LP (INCL §7.4);  Łukasiewicz 1920 (INCL §7.3 "Ł3");  RM3 (INCL §7.4, Anderson & Belnap);
      - Bochvar 1938 internal / external connectives (Rescher, Many-valued Logic 1969, §2.4);
      - Gödel 3-valued (Rescher 1969 §2.7; Heyting);  Post 1921 (Rescher 1969 §2.8);
      - Caret 2017, Hybridized Paracomplete and Paraconsistent Logics, AJL 14 (MH, NH);
      - Owings 2012, Indeterminacy and Logical Atoms (GO).

  Every table is built *by definition*: helper functions that read like the textbook clause, then
  `Tables` lists obtained by enumerating `vals`.  Defined operators follow each page's stated
  definition (include/material_defines.rst:  A ⊃ B := ¬A ∨ B,  A ≡ B := (A ⊃ B) ∧ (B ⊃ A);
  include/bicond_define.rst:  A ↔ B := (A → B) ∧ (B → A)).

  Core Lean only.
-/
import Ptx.Sem.Logic
namespace Ptx.Spec
open V

/-! ## Generic helpers -/

/-- position on the chain  F < N < B < T  (doc value tables: F = 0, N = 0.25/0.5, B = 0.5/0.75, T = 1).
    Every three-valued logic here uses either F < N < T or F < B < T, both restrictions of it. -/
def rank : V → Nat
  | F => 0 | N => 1 | B => 2 | T => 3

/-- `a ≤ b` along the chain -/
def le (a b : V) : Bool := rank a ≤ rank b
/-- maximum / minimum along the chain -/
def vmax (a b : V) : V := if le b a then a else b
def vmin (a b : V) : V := if le a b then a else b

/-- "the maximum value of the instances" (include/fde/m.existential.rst etc.); the empty maximum
    is the least value F (◇ over no accessible world) -/
def maxOf (M : List V) : V := M.foldl vmax F
/-- "the minimum value of the instances"; the empty minimum is the greatest value T (□ over no world) -/
def minOf (M : List V) : V := M.foldl vmin T

/-! ### Belnap–Dunn: a value is a subset of {true, false}
    (doc: include/fde/predication.rst — T: in extension only, F: in anti-extension only,
     B: in both, N: in neither;  Priest INCL §8.2 relational semantics;  Dunn 1976) -/

/-- "told true": 1 ∈ ρ(A) -/
def isTrue : V → Bool
  | T => true | B => true | _ => false
/-- "told false": 0 ∈ ρ(A) -/
def isFalse : V → Bool
  | F => true | B => true | _ => false
def ofTF : Bool → Bool → V
  | true,  false => T
  | false, true  => F
  | true,  true  => B
  | false, false => N

/-- ¬A is true iff A is false, false iff A is true  (INCL §8.2.6).  Fixes N and B, swaps T and F:
    also the K3 / LP / Ł3 / RM3 / weak-Kleene / MH / NH / GO negation. -/
def negDM (a : V) : V := ofTF (isFalse a) (isTrue a)
/-- A ∧ B is true iff both are true, false iff at least one is false (INCL §8.2.6):
    the meet of the lattice  F < N, B < T  with N, B incomparable; so N ∧ B = F. -/
def meet (a b : V) : V := ofTF (isTrue a && isTrue b) (isFalse a || isFalse b)
/-- A ∨ B is true iff at least one is true, false iff both are false: the join; N ∨ B = T. -/
def join (a b : V) : V := ofTF (isTrue a || isTrue b) (isFalse a && isFalse b)
/-- lattice l.u.b. / g.l.b. of a set (Priest INCL §22.2: ∃ is the l.u.b., ∀ the g.l.b. of the
    instance values; §11a.4: ◇ / □ likewise over accessible worlds).  Empty: F / T. -/
def joinOf (M : List V) : V := M.foldl join F
def meetOf (M : List V) : V := M.foldl meet T

/-! ### Recurring clauses -/

/-- weak Kleene / Bochvar internal: N ("meaningless") is infectious, otherwise classical
    (Kleene 1952 §64 weak tables; Bochvar 1938; Beall 2016 "Off-topic") -/
def infect (f : V → V → V) (a b : V) : V := if a = N ∨ b = N then N else f a b

/-- GO "crunched value" (include/go/crunch.rst): 1 (T) if v is 1, else 0 (F).
    Also Bochvar's external assertion "A is true" (b3e.rst: always a classical value). -/
def crunch (a : V) : V := if a = T then T else F

/-! ## A base logic: primitive clauses; the defined operators are derived from them -/

structure Base where
  vals : List V
  des : List V
  /-- value of an atom the model says nothing about: in neither extension nor anti-extension ⇒ N
      (include/fde/predication.rst, include/k3/m.predication.rst); where there is no N
      (exhaustion constraint of lp.rst / classical extension-only predication) ⇒ F -/
  unassigned : V
  neg : V → V
  conj : V → V → V
  disj : V → V → V
  /-- Assertion: transparent unless native -/
  asrt : V → V := id
  /-- native Conditional; `none`: the page lists Conditional among the compatibility
      ("non-native") operators, read as the material conditional -/
  cond : Option (V → V → V) := none
  /-- value of ∃xφ / ∀xφ from the set M of instance values -/
  ex : List V → V
  univ : List V → V
  /-- value of ◇φ / □φ from the set of values at accessible worlds (defaults: like ∃ / ∀) -/
  poss : List V → V := ex
  nec : List V → V := univ

namespace Base
variable (b : Base)
/-- include/material_defines.rst:  A ⊃ B := ¬A ∨ B -/
def mcondF (x y : V) : V := b.disj (b.neg x) y
/-- include/material_defines.rst:  A ≡ B := (A ⊃ B) ∧ (B ⊃ A) -/
def mbicondF (x y : V) : V := b.conj (b.mcondF x y) (b.mcondF y x)
def condF (x y : V) : V := match b.cond with | some f => f x y | none => b.mcondF x y
/-- include/bicond_define.rst:  A ↔ B := (A → B) ∧ (B → A) -/
def bicondF (x y : V) : V := b.conj (b.condF x y) (b.condF y x)

def op1F : Op1 → V → V
  | .asrt => b.asrt | .neg => b.neg | _ => id
def op2F : Op2 → V → V → V
  | .conj => b.conj | .disj => b.disj | .mcond => b.mcondF | .mbicond => b.mbicondF
  | .cond => b.condF | .bicond => b.bicondF
def quantF : Quant → List V → V
  | .ex => b.ex | .univ => b.univ
def modalF : Op1 → List V → V
  | .poss => b.poss | .nec => b.nec | _ => fun _ => F

/-- the complete graphs.  `qf`: every nonempty sublist of `vals`; `mf`: every sublist. -/
def tables (quantified modal : Bool) : Tables where
  vals := b.vals
  des := b.des
  unassigned := b.unassigned
  t1 := [Op1.asrt, Op1.neg].flatMap fun o => b.vals.map fun x => ((o, x), b.op1F o x)
  t2 := Op2.all.flatMap fun o => b.vals.flatMap fun x => b.vals.map fun y => ((o, x, y), b.op2F o x y)
  qf := if quantified then
          Quant.all.flatMap fun q => ((sublists b.vals).filter (!·.isEmpty)).map fun M => ((q, M), b.quantF q M)
        else []
  mf := if modal then
          [Op1.poss, Op1.nec].flatMap fun o => (sublists b.vals).map fun M => ((o, M), b.modalF o M)
        else []
end Base

/-! ## The base logics -/

/- CPL / CFOL (cpl.rst, cfol.rst): two values, T designated; ¬, ∧, ∨ classical; ⊃, ≡ by
   include/material_defines.rst; Assertion and Conditional are "compatibility" operators
   (transparent / material).  cfol: ∃ true iff some instance true, ∀ true iff each instance true
   (include/cfol/m.existential.rst, m.universal.rst).  k.rst: ◇A true at w iff A true at some
   accessible w', □A iff at each (include/k/m.possibility.rst, m.necessity.rst) — so ◇ is F and
   □ is T at a world that accesses nothing.  Predication: T iff in the extension, hence
   unassigned = F (include/cpl/predication.rst). -/
def CPL : Base where
  vals := [F, T]
  des := [T]
  unassigned := F
  neg := fun a => if a = T then F else T
  conj := fun a b => if a = T ∧ b = T then T else F
  disj := fun a b => if a = T ∨ b = T then T else F
  ex := fun M => if M.contains T then T else F
  univ := fun M => if M.all (· = T) then T else F

/- FDE (fde.rst; Belnap 1977, Dunn 1976; Priest INCL §8.2–8.4; Beall & van Fraassen ch. 11).
   Four values, designated {T, B} (fde.rst "Designated Values").  ¬, ∧, ∨ are the De Morgan
   lattice operations of the "diamond" with N and B incomparable: N ∧ B = F, N ∨ B = T.
   Conditional / Assertion: "FDE does not have separate Assertion or Conditional operators"
   (fde.rst Compatibility Tables) ⇒ transparent / material.
   Quantifiers: generalised join / meet (INCL §22.2).  NOTE: the prose of
   include/fde/m.existential.rst says "the maximum value … ordering F, N, B, T" — a linear
   order, which for a set containing both N and B disagrees with the lattice; the spec follows
   the literature (and the requirement that ∃ over a two-element domain be the disjunction).
   Modal: include/kfde/m.possibility.rst "maximum", likewise read as l.u.b. (INCL §11a.4). -/
def FDE : Base where
  vals := [F, N, B, T]
  des := [B, T]
  unassigned := N
  neg := negDM
  conj := meet
  disj := join
  ex := joinOf
  univ := meetOf

/- K3 (k3.rst: "FDE without the B value"; Kleene 1952 §64 strong tables; Priest INCL §7.3):
   ¬ swaps T/F and fixes N; ∧ = min, ∨ = max along F < N < T; designated {T}.
   ∃ / ∀: max / min along F < N < T (include/k3/m.existential.rst; k3.rst includes the fde
   fragment, which restricted to {F,N,T} is the same).  No native →, ∗. -/
def K3 : Base where
  vals := [F, N, T]
  des := [T]
  unassigned := N
  neg := negDM
  conj := vmin
  disj := vmax
  ex := maxOf
  univ := minOf

/- LP (lp.rst: "FDE without the N value"; Priest 1979; INCL §7.4): same clauses along
   F < B < T; designated {T, B}.  Quantifiers include/lp/m.existential.rst / m.universal.rst.
   Exhaustion constraint (lp.rst Predication) ⇒ an unmentioned atom cannot be N; it is F. -/
def LP : Base where
  vals := [F, B, T]
  des := [B, T]
  unassigned := F
  neg := negDM
  conj := vmin
  disj := vmax
  ex := maxOf
  univ := minOf

/-- numeric reading of K3-style values in halves: F = 0, N = 1/2, T = 1
    (include/k3/value-table.rst), stored doubled -/
def half2 : V → Nat
  | F => 0 | T => 2 | _ => 1
def ofHalf2 : Nat → V
  | 0 => F | 1 => N | _ => T

/- Ł3 (l3.rst; Łukasiewicz 1920; INCL §7.3.8): K3 with the native conditional
   v(A → B) = min(1, 1 − v(A) + v(B)); in particular N → N = T ("Conditional Identity holds").
   ↔ by include/bicond_define.rst; ⊃, ≡ material; Assertion transparent. -/
def condL3 (a b : V) : V := ofHalf2 (Nat.min 2 (2 + half2 b - half2 a))
def L3 : Base := { K3 with cond := some condL3 }

/- RM3 (rm3.rst; Anderson & Belnap §29.12 Sugihara matrix on {−1, 0, +1}; INCL §7.4.? RM3):
   LP with the native conditional   a → b = max(¬a, b) if a ≤ b,  min(¬a, b) otherwise,
   i.e. rows  T: T F F (for b = T, B, F),  B: T B F,  F: T T T.
   rm3.rst Notes: Modus Ponens valid; "B, therefore A → B" invalid (T → B = F). -/
def condRM3 (a b : V) : V := if le a b then vmax (negDM a) b else vmin (negDM a) b
def RM3 : Base := { LP with cond := some condRM3 }

/- K3W (k3w.rst; weak Kleene = Bochvar internal B3): N infectious for ∧, ∨ (hence for the
   defined ⊃, ≡: "Addition fails"), ¬ as K3.  Quantifiers: k3w.rst includes the fde max / min
   fragment (NOT the weak generalisation — that is K3WQ, see the Note on k3w.rst).
   Modal (kk3w.rst): include/kfde max / min. -/
def K3W : Base where
  vals := [F, N, T]
  des := [T]
  unassigned := N
  neg := negDM
  conj := infect vmin
  disj := infect vmax
  ex := maxOf
  univ := minOf

/- K3WQ (k3wq.rst Quantification): K3W with generalised WEAK disjunction / conjunction:
     ∃:  N if N ∈ M;  T if N ∉ M and T ∈ M;  F otherwise.
     ∀:  N if N ∈ M;  F if N ∉ M and F ∈ M;  T otherwise.
   Modal (kk3wq.rst: "todo"; title "K3WQ with K modal"): the same generalised weak
   disjunction / conjunction over the accessible worlds; the "otherwise" case covers the empty
   set (◇ = F, □ = T). -/
def exWeak (M : List V) : V := if M.contains N then N else if M.contains T then T else F
def univWeak (M : List V) : V := if M.contains N then N else if M.contains F then F else T
def K3WQ : Base := { K3W with ex := exWeak, univ := univWeak, poss := exWeak, nec := univWeak }

/- B3E (b3e.rst; Bochvar 1938; Rescher 1969 §2.4): internal ¬, ∧, ∨ as K3W ("we use the
   standard internal readings of ∧ and ∨"); native Assertion ∗ "always results in a classical
   value": ∗A is T iff A is T, else F;  A → B := ¬∗A ∨ ∗B (external);  ↔ by bicond_define;
   ⊃, ≡ material over the internal connectives.  Quantifiers: fde max / min fragment. -/
def B3E : Base :=
  { K3W with asrt := crunch,
             cond := some fun a b => infect vmax (negDM (crunch a)) (crunch b) }

/- G3 (g3.rst: "classical-like negation, and Ł3-like conditional"; Gödel 1932; Rescher 1969
   §2.7): ∧ = min, ∨ = max;  ¬a = T if a = F, else F;  a → b = T if a ≤ b, else b.
   ⊃ := ¬A ∨ B with THIS negation (include/material_defines.rst); ↔ by bicond_define. -/
def negG3 (a : V) : V := if a = F then T else F
def condG3 (a b : V) : V := if le a b then T else b
def G3 : Base := { K3 with neg := negG3, cond := some condG3 }

/- MH (mh.rst; Caret 2017 §2 matrix for MH): ¬ and ∧ as K3 (mh.rst: "conjunction behaves
   just like K3");  ∨ as K3 except N ∨ N = F (the binary case of the ∃ clause below);
   native →, classical-valued:  A → B is F if A is T and B is not T, otherwise T
   (Caret 2017: the conditional preserves the designated value 1 and is two-valued).
   ∃ (mh.rst):  T if T ∈ M;  N if both N and F ∈ M;  F otherwise.   ∀: K3 minimum. -/
def MH : Base where
  vals := [F, N, T]
  des := [T]
  unassigned := N
  neg := negDM
  conj := vmin
  disj := fun a b => if a = N ∧ b = N then F else vmax a b
  cond := some fun a b => if a = T ∧ b ≠ T then F else T
  ex := fun M => if M.contains T then T else if M.contains N && M.contains F then N else F
  univ := minOf

/- NH (nh.rst; Caret 2017 §3 matrix for NH), the glutty dual: ¬ and ∨ as LP (nh.rst:
   "disjunction behaves just like LP");  ∧ as LP except B ∧ B = T (binary case of the ∀ clause);
   native →:  A → B is F if A is designated (T or B) and B is F, otherwise T.
   ∀ (nh.rst):  F if F ∈ M;  B if both B and T ∈ M;  T otherwise.   ∃: LP maximum. -/
def NH : Base where
  vals := [F, B, T]
  des := [B, T]
  unassigned := F
  neg := negDM
  conj := fun a b => if a = B ∧ b = B then T else vmin a b
  disj := vmax
  cond := some fun a b => if a ≠ F ∧ b = F then F else T
  ex := maxOf
  univ := fun M => if M.contains F then F else if M.contains B && M.contains T then B else T

/- GO (go.rst; Owings 2012 ch. 4): ¬ as K3 (go.rst Notes: "only atomic sentences (with zero or
   more negations) can have the value N");  ∧ / ∨ "always have a classical value": min / max of
   the CRUNCHED values (binary case of the quantifier clauses, which go.rst states are
   "in accord with … generalized disjunction / conjunction").
   Defined (go.rst):  ∗A := A ∧ A;   A ⊃ B := ¬A ∨ B;   A ≡ B := (A ⊃ B) ∧ (B ⊃ A);
     A → B := (A ⊃ B) ∨ (¬(A ∨ ¬A) ∧ ¬(B ∨ ¬B));   A ↔ B := (A → B) ∧ (B → A).
   ∃ / ∀ (include/go/m.existential.rst, m.universal.rst): max / min of the crunched values.
   S4GO (s4go.rst; include/go/m.possibility.rst, m.necessity.rst): ◇ / □ likewise. -/
def conjGO (a b : V) : V := vmin (crunch a) (crunch b)
def disjGO (a b : V) : V := vmax (crunch a) (crunch b)
def condGO (a b : V) : V :=
  disjGO (disjGO (negDM a) b)
         (conjGO (negDM (disjGO a (negDM a))) (negDM (disjGO b (negDM b))))
def GO : Base where
  vals := [F, N, T]
  des := [T]
  unassigned := N
  neg := negDM
  conj := conjGO
  disj := disjGO
  asrt := fun a => conjGO a a
  cond := some condGO
  ex := fun M => maxOf (M.map crunch)
  univ := fun M => minOf (M.map crunch)

/- P3 (p3.rst; Post 1921; Rescher 1969 §2.8): ¬ is the cyclic shift one step down the truth
   order, wrapping round:  T ↦ N ↦ F ↦ T  (Post: ¬tᵢ = tᵢ₊₁, ¬t_m = t₁ with t₁ the truest);
   ∨ = max;  A ∧ B := ¬(¬A ∨ ¬B) (p3.rst: "yields a non-standard table");  ⊃, ≡ material;
   Assertion / Conditional compatibility operators.  Not quantified (Meta.quantified = False;
   p3.rst has no Quantification section): the folds are never used. -/
def negP3 : V → V
  | T => N | N => F | F => T | B => B
def P3 : Base where
  vals := [F, N, T]
  des := [T]
  unassigned := N
  neg := negP3
  conj := fun a b => negP3 (vmax (negP3 a) (negP3 b))
  disj := vmax
  ex := maxOf
  univ := minOf

/-! ## The catalogue of the 57 logics -/

/-- the many-valued bases that have K / T / S4 / S5 modal extensions (k<base>.rst … s5<base>.rst:
    "the semantics for predication, quantification, and truth-functional operators are the same
    as <base>") -/
def modalBases : List String := ["B3E", "FDE", "G3", "K3", "K3W", "K3WQ", "L3", "LP", "RM3"]
def nonModal : List String :=
  ["B3E", "CFOL", "CPL", "FDE", "G3", "GO", "K3", "K3W", "K3WQ", "L3", "LP", "MH", "NH", "P3", "RM3"]
def classicalModal : List String := ["K", "D", "T", "S4", "S5"]

/-- (name, base): `CFOL ↦ CPL` (same tables + quantifiers), `K D T S4 S5 ↦ CFOL`,
    `<K|T|S4|S5><X> ↦ X`, `S4GO ↦ GO`, base logics ↦ themselves -/
def catalogue : List (String × String) :=
  nonModal.map (fun n => (n, if n = "CFOL" then "CPL" else n))
  ++ classicalModal.map (fun n => (n, "CFOL"))
  ++ ["K", "T", "S4", "S5"].flatMap (fun p => modalBases.map fun x => (p ++ x, x))
  ++ [("S4GO", "GO")]

def names : List String := catalogue.map (·.1)
def baseOf (n : String) : String := (catalogue.lookup n).getD n
def isModal (n : String) : Bool := !nonModal.contains n && names.contains n
/-- CPL (cpl.rst Note: "CPL does not give a treatment of the quantifiers") and P3 are not quantified -/
def isQuantified (n : String) : Bool := n != "CPL" && n != "P3"

def semOf : String → Option Base
  | "CPL" => some CPL | "FDE" => some FDE | "K3" => some K3 | "LP" => some LP
  | "L3" => some L3 | "RM3" => some RM3 | "K3W" => some K3W | "K3WQ" => some K3WQ
  | "B3E" => some B3E | "G3" => some G3 | "MH" => some MH | "NH" => some NH
  | "GO" => some GO | "P3" => some P3 | _ => none

/-- root of the `baseOf` chain (K ↦ CFOL ↦ CPL) -/
def rootOf (n : String) : String := baseOf (baseOf n)

def tablesOf (n : String) : Option Tables :=
  if names.contains n then (semOf (rootOf n)).map (·.tables (isQuantified n) (isModal n)) else none

def designatedOf (n : String) : List V := ((tablesOf n).map (·.des)).getD []

/-! ## Sanity checks of the transcription against itself (no reference to the code) -/

private def all2 (p : V → V → Bool) : Bool := V.all.all fun a => V.all.all fun b => p a b
private def on2 (vs : List V) (p : V → V → Bool) : Bool := vs.all fun a => vs.all fun b => p a b

-- 57 logics, all resolvable
example : names.length = 57 ∧ names.all (fun n => (tablesOf n).isSome) = true := by decide
-- the lattice clauses restricted to K3 / LP values are the min / max clauses ("FDE without B / N")
example : on2 [F, N, T] (fun a b => meet a b == vmin a b && join a b == vmax a b) = true := by decide
example : on2 [F, B, T] (fun a b => meet a b == vmin a b && join a b == vmax a b) = true := by decide
-- the famous rows
example : meet N B = F ∧ join N B = T ∧ meet B N = F ∧ join B N = T := by decide
-- Ł3: N → N = T, T → N = N, N → F = N, T → F = F
example : condL3 N N = T ∧ condL3 T N = N ∧ condL3 N F = N ∧ condL3 T F = F ∧ condL3 F N = T := by decide
-- RM3 rows  T: T F F,  B: T B F,  F: T T T   (columns T, B, F)
example : [T, B, F].map (fun a => [T, B, F].map (condRM3 a)) = [[T, F, F], [T, B, F], [T, T, T]] := by decide
-- MH / NH: the binary connective is the two-element case of the quantifier clause
example : on2 MH.vals (fun a b => MH.ex [a, b] == MH.disj a b && MH.univ [a, b] == MH.conj a b) = true := by decide
example : on2 NH.vals (fun a b => NH.ex [a, b] == NH.disj a b && NH.univ [a, b] == NH.conj a b) = true := by decide
example : on2 GO.vals (fun a b => GO.ex [a, b] == GO.disj a b && GO.univ [a, b] == GO.conj a b) = true := by decide
example : on2 K3WQ.vals (fun a b => K3WQ.ex [a, b] == K3WQ.disj a b && K3WQ.univ [a, b] == K3WQ.conj a b) = true := by decide
-- GO: assertion is the crunch; the conditional is T iff (A ⊃ B) is T or both are gappy
example : GO.vals.all (fun a => GO.asrt a == crunch a) = true := by decide
example : on2 GO.vals (fun a b => condGO a b == (if GO.mcondF a b = T ∨ (a = N ∧ b = N) then T else F)) = true := by decide
-- B3E: external conditional is classical-valued
example : on2 B3E.vals (fun a b => B3E.condF a b != N) = true := by decide
-- P3: T ∧ T = F  (the "non-standard table")
example : P3.conj T T = F := by decide

end Ptx.Spec
