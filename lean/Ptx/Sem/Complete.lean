/-
  Ptx.Sem.Complete — the decidable side conditions of the COMPLETENESS direction (C02, the
  Hintikka lemma): the backward half of rule exactness ("if all nodes of some extension are
  satisfied — with a witness / at all points as the rule's kind says — then the target node is
  satisfied"), evaluated on abstract valuations exactly like `ruleSoundB`.  A template the
  abstract evaluator cannot evaluate counts as POSSIBLY satisfied (`maySat`), which is the
  conservative reading for this direction.  Core Lean only.
-/
import Ptx.Tab.Saturated
namespace Ptx
namespace LogicData
variable (L : LogicData)

def maySat (d : Option Bool) : Option V → Bool
  | some v => L.satV d v
  | none => true

def opBranchMay (k : RuleKey) (a b : V) (br : List AddT) : Bool :=
  br.all fun
    | .node n => L.maySat n.des (Tm.evalOp L.T k.shape a b n.tm)
    | .access => true

def opRuleCompleteAt (k : RuleKey) (r : Rule) (a b : V) : Bool :=
  !(r.branches.any (L.opBranchMay k a b)) || L.nodeSatOp k a b

def mBranchSameMay (o : Op1) (P : List V) (br : List AddT) : Bool :=
  br.all fun
    | .node n => n.other || L.maySat n.des (Tm.evalMSame L.T o P n.tm)
    | .access => true

def mBranchOtherMay (v : V) (br : List AddT) : Bool :=
  br.all fun
    | .node n => !n.other || L.maySat n.des (Tm.evalPt L.T (some v) none n.tm)
    | .access => true

/-- does the template branch put a sentence node at the witness world -/
def brHasOtherNode (br : List AddT) : Bool := br.any fun | .node n => n.other | .access => false

def mRuleCompleteAt (o : Op1) (k : RuleKey) (r : Rule) (P : List V) : Bool :=
  match r.witness with
  | .none => !(r.branches.any (L.mBranchSameMay o P)) || L.nodeSatM o k P
  | .newWorld =>
      r.branches.all (fun br => !brHasOtherNode br || br.contains AddT.access) &&
      (!(r.branches.any fun br => L.mBranchSameMay o P br &&
            (!brHasOtherNode br || P.any fun v => L.mBranchOtherMay v br))
        || L.nodeSatM o k P)
  | .eachWorld =>
      match r.branches with
      | [br] => mBranchAllOther br && (!(P.all fun v => L.mBranchOtherMay v br) || L.nodeSatM o k P)
      | _ => false
  | _ => false

def qBranchMay (q : Quant) (P : List V) (pt : Option V) (br : List AddT) : Bool :=
  br.all fun
    | .node n => L.maySat n.des (Tm.evalQ L.T q P pt n.tm)
    | .access => true

/-- quantifier rules on a value profile `P` of the body over the (nonempty) domain -/
def qRuleCompleteAt (q : Quant) (k : RuleKey) (r : Rule) (P : List V) : Bool :=
  match r.witness with
  | .none => !(r.branches.any (L.qBranchMay q P none)) || L.nodeSatQ q k P
  | .newConst => !(r.branches.any fun br => P.any fun v => L.qBranchMay q P (some v) br) || L.nodeSatQ q k P
  | .eachConst =>
      match r.branches with
      | [br] => !(P.all fun v => L.qBranchMay q P (some v) br) || L.nodeSatQ q k P
      | _ => false
  | _ => false

/-- backward half of exactness: operator rules on operand values, modal and quantifier rules on value profiles -/
def ruleCompleteB (k : RuleKey) (r : Rule) : Bool :=
  match k.shape with
  | .op1 o =>
      if o.isModal then L.mProfiles.all (L.mRuleCompleteAt o k r)
      else r.witness == .none && L.T.vals.all fun a => L.opRuleCompleteAt k r a a
  | .op2 _ => r.witness == .none && L.T.vals.all fun a => L.T.vals.all fun b => L.opRuleCompleteAt k r a b
  | .quant q => L.nonemptyProfiles.all (L.qRuleCompleteAt q k r)

def incompleteRules : List RuleKey := (L.rules.filter fun (k, r) => !L.ruleCompleteB k r).map (·.1)

/-- the frame rules present suffice for the frame class -/
def framesCompleteB : Bool :=
  match L.frame with
  | .none => true
  | .K => true
  | .D => L.frameRules.contains "Serial"
  | .T => L.frameRules.contains "Reflexive"
  | .S4 => L.frameRules.contains "Reflexive" && L.frameRules.contains "Transitive"
  | .S5 => L.frameRules.contains "Reflexive" && L.frameRules.contains "Transitive" && L.frameRules.contains "Symmetric"

/-- a satisfied trunk is a countermodel: premises carry a "designated" reading, the conclusion an
    "undesignated" one — or, classical style, is negated, which needs `des (¬v) → ¬ des v` -/
def trunkBackB : Bool :=
  (L.trunkPrem != some false) &&
  (if L.trunkConcNeg then
      L.trunkConc != some false && L.T.vals.all (fun v => !(L.T.isDes v && L.T.isDes (L.T.f1 .neg v)))
   else L.trunkConc == some false)

/-- side conditions of the Hintikka lemma that do not depend on the branch -/
def hintikkaCoreB : Bool :=
  L.tablesTotalB && L.incompleteRules.isEmpty && L.missingRules.isEmpty && L.closureTotalB && L.readTotalB
  && L.badRead.isEmpty && L.vocabOKB && L.framesCompleteB && L.nonLocalRules.isEmpty
  && (L.modal == (L.frame != .none))

end LogicData

/-- the sentences the Hintikka lemma covers, `bound` = variables bound by enclosing quantifiers:
    parameters of predications are constants or bound variables, no Identity / Existence; a quantifier
    the logic interprets does not re-bind its variable inside its body and has nothing uninterpreted
    in its body (`Sent.quantOK`); what the logic leaves uninterpreted is an opaque literal and is not
    looked into -/
def Sent.fo (L : LogicData) (bound : List (Nat × Nat)) : Sent → Bool
  | .atom _ _ => true
  | .pred p ps => p != Pred.identity && p != Pred.existence &&
      ps.all fun | .const _ _ => true | .var i s => bound.contains (i, s)
  | .quant _ vi vs b =>
      !L.quantified || (b.noBinder vi vs && b.interp L.modal L.quantified && b.fo L ((vi, vs) :: bound))
  | .op1 o a => (o.isModal && !L.modal) || a.fo L bound
  | .op2 _ a b => a.fo L bound && b.fo L bound

/-- no Identity / Existence predication in the part of the sentence the logic interprets -/
def Sent.noSys (L : LogicData) : Sent → Bool
  | .atom _ _ => true
  | .pred p _ => p != Pred.identity && p != Pred.existence
  | .quant _ _ _ b => !L.quantified || b.noSys L
  | .op1 o a => (o.isModal && !L.modal) || a.noSys L
  | .op2 _ a b => a.noSys L && b.noSys L

/-- … without any quantifier the logic interprets (propositional + modal vocabulary) -/
def Sent.ground (L : LogicData) : Sent → Bool
  | .atom _ _ => true
  | .pred p ps => p != Pred.identity && p != Pred.existence && ps.all fun | .const _ _ => true | .var _ _ => false
  | .quant _ _ _ _ => !L.quantified
  | .op1 o a => (o.isModal && !L.modal) || a.ground L
  | .op2 _ a b => a.ground L && b.ground L

/-- node markers and world labels are the ones the logic uses; sentences are closed first-order
    sentences in the sense of `Sent.fo` -/
def Branch.foB (L : LogicData) (b : Branch) : Bool :=
  b.nodes.all fun
    | .sent s d w => s.fo L [] && L.markers.contains d && (w.isSome == L.modal)
    | .access _ _ => L.modal
    | _ => true

/-- … with ground sentences -/
def Branch.groundB (L : LogicData) (b : Branch) : Bool :=
  b.nodes.all fun
    | .sent s d w => s.ground L && L.markers.contains d && (w.isSome == L.modal)
    | .access _ _ => L.modal
    | _ => true

end Ptx
