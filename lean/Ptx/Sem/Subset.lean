/- Boolean sublist-as-set test used by the generated obligations (core only). -/
namespace Ptx

def subsetB {α} [DecidableEq α] (xs ys : List α) : Bool := xs.all (ys.contains ·)

theorem subsetB_iff {α} [DecidableEq α] (xs ys : List α) :
    subsetB xs ys = true ↔ ∀ x ∈ xs, x ∈ ys := by
  simp [subsetB, List.all_eq_true]

theorem subsetB_nil_right {α} [DecidableEq α] (xs : List α) (h : subsetB xs [] = true) : xs = [] := by
  cases xs with
  | nil => rfl
  | cons x xs => simp [subsetB] at h

end Ptx
