/- dumps the documented tables (Ptx/Sem/Spec.lean) as text for the Python failing-input search -/
import Ptx.Sem.Spec
open Ptx

def vs (l : List V) : String := String.join (l.map V.toStr)

def main : IO Unit := do
  for n in Spec.names do
    match Spec.tablesOf n with
    | none => IO.println s!"nospec {n}"
    | some T =>
      IO.println s!"vals {n} {vs T.vals}"
      IO.println s!"des {n} {vs T.des}"
      for ((o, a), r) in T.t1 do IO.println s!"t1 {n} {o.name} {a.toStr} {r.toStr}"
      for ((o, a, b), r) in T.t2 do IO.println s!"t2 {n} {o.name} {a.toStr}{b.toStr} {r.toStr}"
      for ((q, P), r) in T.qf do IO.println s!"qf {n} {q.name} {vs P} {r.toStr}"
      for ((o, P), r) in T.mf do IO.println s!"mf {n} {o.name} -{vs P} {r.toStr}"
