/-
  Ptx.Sem.Logic — a logic of pytableaux as *data*: truth tables, quantifier/modal folds,
  rule templates, closure table.  Everything in `LogicData` is what the translator
  (harness/extract) regenerates from /repo on every run (Ptx/Gen/*.lean).

  This file also defines the *decidable* side conditions (`…B : Bool`) that the per-logic
  obligations discharge by kernel evaluation, e.g. rule exactness.  The generic lemmas that
  give those Booleans their meaning (for all sentences / structures) are in Ptx/Proofs.
  Core Lean only.
-/
import Ptx.Lang.Syntax
import Ptx.Util
namespace Ptx

/-- the truth values used by all logics: a logic's value set is a sublist of `[F,N,B,T]` -/
inductive V where
  | F | N | B | T
  deriving DecidableEq, Repr, Inhabited

namespace V
def all : List V := [F, N, B, T]
def toStr : V → String
  | F => "F" | N => "N" | B => "B" | T => "T"
def ofStr : String → Option V
  | "F" => some F | "N" => some N | "B" => some B | "T" => some T | _ => none
theorem mem_all (v : V) : v ∈ all := by cases v <;> simp [all]
end V

inductive FrameKind where
  | none | K | D | T | S4 | S5
  deriving DecidableEq, Repr, Inhabited

/-- Truth tables and folds of one logic (models/__init__.py TruthFunction, value_of_quantified,
    value_of_operated for modal operators), as complete graphs. -/
structure Tables where
  vals : List V
  des  : List V
  unassigned : V
  t1 : List ((Op1 × V) × V)              -- Assertion, Negation
  t2 : List ((Op2 × V × V) × V)
  qf : List ((Quant × List V) × V)       -- value of Qxφ from the SET (sublist of vals) of instance values
  mf : List ((Op1 × List V) × V)         -- value of ◇φ / □φ from the set of values at accessible worlds
  deriving Repr, Inhabited, DecidableEq

namespace Tables
variable (T : Tables)

def isDes (v : V) : Bool := T.des.contains v
def f1 (o : Op1) (a : V) : V := (T.t1.lookup (o, a)).getD .F
def f2 (o : Op2) (a b : V) : V := (T.t2.lookup (o, a, b)).getD .F

/-- canonical form of a set of values: the sublist of `vals` of those present -/
def canon (P : List V) : List V := T.vals.filter (P.contains ·)
def qfold (q : Quant) (P : List V) : V := (T.qf.lookup (q, T.canon P)).getD .F
def mfold (o : Op1) (P : List V) : V := (T.mf.lookup (o, T.canon P)).getD .F

/-- all sublists of `vals` (value profiles) -/
def profiles : List (List V) := sublists T.vals

/-- every table is total on `vals` and closed under `vals` (so the `getD` defaults are never used) -/
def totalB (modal quantified emptyOk : Bool) : Bool :=
  [Op1.asrt, Op1.neg].all (fun o => T.vals.all fun a =>
      match T.t1.lookup (o, a) with | some r => T.vals.contains r | none => false)
  && Op2.all.all (fun o => T.vals.all fun a => T.vals.all fun b =>
      match T.t2.lookup (o, a, b) with | some r => T.vals.contains r | none => false)
  && (!quantified || Quant.all.all (fun q => T.profiles.all fun P =>
      P.isEmpty || match T.qf.lookup (q, P) with | some r => T.vals.contains r | none => false))
  && (!modal || [Op1.poss, Op1.nec].all (fun o => T.profiles.all fun P =>
      (P.isEmpty && !emptyOk) || match T.mf.lookup (o, P) with | some r => T.vals.contains r | none => false))
  && T.des.all T.vals.contains && T.vals.contains T.unassigned
/-- the defined operators obey their definitions on the code's own tables:
    A ⊃ B = ¬A ∨ B,  A ≡ B = (A ⊃ B) ∧ (B ⊃ A),  A ↔ B = (A → B) ∧ (B → A) -/
def definedOpsBad : List (Op2 × V × V) :=
  (T.vals.flatMap fun a => T.vals.map fun b => (a, b)).flatMap fun (a, b) =>
    (if T.f2 .mcond a b == T.f2 .disj (T.f1 .neg a) b then [] else [(Op2.mcond, a, b)])
    ++ (if T.f2 .mbicond a b == T.f2 .conj (T.f2 .mcond a b) (T.f2 .mcond b a) then [] else [(Op2.mbicond, a, b)])
    ++ (if T.f2 .bicond a b == T.f2 .conj (T.f2 .cond a b) (T.f2 .cond b a) then [] else [(Op2.bicond, a, b)])

/-- two logics have the same truth-functional tables, value set and designated values -/
def sameTF (S : Tables) : Bool :=
  T.vals == S.vals && T.des == S.des && T.t1 == S.t1 && T.t2 == S.t2

end Tables

/-! ### Rule templates -/

/-- which compound shape a rule is for -/
inductive Shape where
  | op1 (o : Op1) | op2 (o : Op2) | quant (q : Quant)
  deriving DecidableEq, Repr, Inhabited

def Shape.isOp2 : Shape → Bool
  | .op2 _ => true
  | _ => false

/-- key of the rule table: shape, whether the node's sentence is the negation of that shape,
    and the node's designation marker (`none` in the classical family) -/
structure RuleKey where
  shape : Shape
  negated : Bool
  des : Option Bool
  deriving DecidableEq, Repr, Inhabited

/-- sentence templates over the components of the target node's sentence -/
inductive Tm where
  | lhs                       -- first operand; for a quantified sentence: the body instantiated with the witness constant
  | rhs                       -- second operand
  | whole                     -- the compound itself: the node's sentence without the key's outer negation
  | raw                       -- the un-instantiated body of a quantified sentence (only under `bind`)
  | bind (q : Quant) (t : Tm) -- Quantified(q, v, t)  with v the node's own variable
  | op1 (o : Op1) (t : Tm)
  | op2 (o : Op2) (t u : Tm)
  deriving DecidableEq, Repr, Inhabited

/-- one added node: sentence template, designation marker, and whether it sits at the
    witness world (`other`) or the target node's own world -/
structure NodeT where
  tm : Tm
  des : Option Bool
  other : Bool
  deriving DecidableEq, Repr, Inhabited

inductive AddT where
  | node (n : NodeT)
  | access                    -- access node  w → w'  (w' the witness world)
  deriving DecidableEq, Repr, Inhabited

inductive Witness where
  | none | newConst | eachConst | newWorld | eachWorld
  deriving DecidableEq, Repr, Inhabited

structure Rule where
  name : String
  ticks : Bool
  witness : Witness
  branches : List (List AddT)
  deriving DecidableEq, Repr, Inhabited

/-- literal constraint on one sentence `s` at one world: is it `¬s` that is on the node, and the marker -/
structure Lit where
  negated : Bool
  des : Option Bool
  deriving DecidableEq, Repr, Inhabited

structure LogicData where
  name : String
  tables : Tables
  marks : Bool                  -- nodes carry designation markers (FDE style); false: classical style
  modal : Bool
  quantified : Bool
  frame : FrameKind
  rules : List (RuleKey × Rule)
  /-- closure table: every set of literal constraints on one sentence at one world ↦ does the branch close -/
  closure : List (List Lit × Bool)
  /-- value the model builder reads off an open literal set -/
  readTable : List (List Lit × V)
  /-- identity / existence closure rules present (classical family) -/
  closesSelfIdNeg : Bool
  closesNonExist : Bool
  /-- identity/existence literals that must NOT close (`a=a`, `¬a=b`, `E!a`), observed -/
  closesOtherIdent : Bool
  /-- trunk: marker on premises; is the conclusion negated; marker on the conclusion node -/
  trunkPrem : Option Bool
  trunkConcNeg : Bool
  trunkConc : Option Bool
  /-- frame rules present in the rule set: Reflexive / Transitive / Symmetric / Serial -/
  frameRules : List String
  extendsL : List String
  deriving Repr, Inhabited

namespace LogicData
variable (L : LogicData)
def T := L.tables
def rule? (k : RuleKey) : Option Rule := L.rules.lookup k

/-- the designation markers nodes of this logic can carry -/
def markers : List (Option Bool) := if L.marks then [some true, some false] else [none]

/-- does value `v` satisfy a node with marker `d`  (`none` = classical: the sentence is true) -/
def satV (d : Option Bool) (v : V) : Bool :=
  match d with
  | some false => !L.T.isDes v
  | _ => L.T.isDes v

def interpretsOp1 (o : Op1) : Bool := !o.isModal || L.modal
end LogicData

/-! ### Evaluating templates on abstract valuations -/

namespace Tm

/-- pointwise evaluation: `lhs`/`raw` ↦ `x`, `rhs` ↦ `y`; truth-functional operators only -/
def evalPt (T : Tables) (x : Option V) (y : Option V) : Tm → Option V
  | lhs => x
  | raw => x
  | rhs => y
  | whole => none
  | bind _ _ => none
  | op1 o t => if o.isModal then none else (evalPt T x y t).map (T.f1 o)
  | op2 o t u => do some (T.f2 o (← evalPt T x y t) (← evalPt T x y u))

/-- value of the compound (shape applied to the operand values), without the key's negation -/
def wholeOp (T : Tables) (sh : Shape) (a b : V) : Option V :=
  match sh with
  | .op1 o => if o.isModal then none else some (T.f1 o a)
  | .op2 o => some (T.f2 o a b)
  | .quant _ => none

/-- evaluation for an operator rule: operands have values `a`, `b` -/
def evalOp (T : Tables) (sh : Shape) (a b : V) : Tm → Option V
  | lhs => some a
  | rhs => if sh.isOp2 then some b else none
  | whole => wholeOp T sh a b
  | raw => none
  | bind _ _ => none
  | op1 o t => if o.isModal then none else (evalOp T sh a b t).map (T.f1 o)
  | op2 o t u => do some (T.f2 o (← evalOp T sh a b t) (← evalOp T sh a b u))

/-- map a pointwise template over a profile -/
def mapProfile (T : Tables) (t : Tm) (P : List V) : Option (List V) :=
  mapOpt (fun v => evalPt T (some v) none t) P

/-- evaluation for a quantifier rule on profile `P` (the set of values the body takes over the
    domain); `pt` is the value of the body at the witness, if the rule has one -/
def evalQ (T : Tables) (q : Quant) (P : List V) (pt : Option V) : Tm → Option V
  | lhs => pt
  | rhs => none
  | raw => none
  | whole => some (T.qfold q P)
  | bind q' t => (mapProfile T t P).map (T.qfold q')
  | op1 o t => if o.isModal then none else (evalQ T q P pt t).map (T.f1 o)
  | op2 o t u => do some (T.f2 o (← evalQ T q P pt t) (← evalQ T q P pt u))

/-- evaluation for a modal rule at the node's own world: a modal operator applied to a
    pointwise template folds over the profile of accessible worlds -/
def evalMSame (T : Tables) (mo : Op1) (P : List V) : Tm → Option V
  | lhs => none
  | rhs => none
  | raw => none
  | bind _ _ => none
  | whole => some (T.mfold mo P)
  | op1 o t => if o.isModal then (mapProfile T t P).map (T.mfold o)
               else (evalMSame T mo P t).map (T.f1 o)
  | op2 o t u => do some (T.f2 o (← evalMSame T mo P t) (← evalMSame T mo P u))

end Tm

namespace LogicData
variable (L : LogicData)

def satOpt (d : Option Bool) : Option V → Bool
  | some v => L.satV d v
  | none => false

def negIf (neg : Bool) (v : V) : V := if neg then L.T.f1 .neg v else v

/-- is the target node itself satisfied, on operand values / on a profile -/
def nodeSatOp (k : RuleKey) (a b : V) : Bool :=
  L.satOpt k.des ((Tm.wholeOp L.T k.shape a b).map (L.negIf k.negated))
def nodeSatQ (q : Quant) (k : RuleKey) (P : List V) : Bool :=
  L.satV k.des (L.negIf k.negated (L.T.qfold q P))
def nodeSatM (o : Op1) (k : RuleKey) (P : List V) : Bool :=
  L.satV k.des (L.negIf k.negated (L.T.mfold o P))

def AddT.isNode : AddT → Option NodeT
  | .node n => some n | .access => none

/-- operator rule: exact on operand values (a,b) -/
def opBranchSat (k : RuleKey) (a b : V) (br : List AddT) : Bool :=
  br.all fun
    | .node n => !n.other && L.satOpt n.des (Tm.evalOp L.T k.shape a b n.tm)
    | .access => false

def opRuleExactAt (k : RuleKey) (r : Rule) (a b : V) : Bool :=
  L.nodeSatOp k a b == r.branches.any (L.opBranchSat k a b)

/-- quantifier rule branch with witness value `pt` -/
def qBranchSat (q : Quant) (k : RuleKey) (P : List V) (pt : Option V) (br : List AddT) : Bool :=
  br.all fun
    | .node n => !n.other && L.satOpt n.des (Tm.evalQ L.T q P pt n.tm)
    | .access => false

def qRuleExactAt (q : Quant) (k : RuleKey) (r : Rule) (P : List V) : Bool :=
  match r.witness with
  | .none => L.nodeSatQ q k P == r.branches.any (L.qBranchSat q k P none)
  | .newConst => L.nodeSatQ q k P == r.branches.any (fun br => P.any fun v => L.qBranchSat q k P (some v) br)
  | .eachConst =>
      match r.branches with
      | [br] => L.nodeSatQ q k P == P.all (fun v => L.qBranchSat q k P (some v) br)
      | _ => false
  | _ => false

/-- modal rule branch: same-world nodes on the profile, other-world nodes at the witness value -/
def mBranchSame (o : Op1) (k : RuleKey) (P : List V) (br : List AddT) : Bool :=
  br.all fun
    | .node n => n.other || L.satOpt n.des (Tm.evalMSame L.T o P n.tm)
    | .access => true
def mBranchOther (v : V) (br : List AddT) : Bool :=
  br.all fun
    | .node n => !n.other || L.satOpt n.des (Tm.evalPt L.T (some v) none n.tm)
    | .access => true
def mBranchHasOther (br : List AddT) : Bool :=
  br.any fun | .node n => n.other | .access => true
def mBranchAllOther (br : List AddT) : Bool :=
  br.all fun | .node n => n.other | .access => false

def mRuleExactAt (o : Op1) (k : RuleKey) (r : Rule) (P : List V) : Bool :=
  match r.witness with
  | .none => L.nodeSatM o k P == r.branches.any (fun br => !mBranchHasOther br && L.mBranchSame o k P br)
  | .newWorld => L.nodeSatM o k P == r.branches.any (fun br =>
        L.mBranchSame o k P br && (!mBranchHasOther br || P.any fun v => L.mBranchOther v br))
  | .eachWorld =>
      match r.branches with
      | [br] => mBranchAllOther br && (L.nodeSatM o k P == P.all (fun v => L.mBranchOther v br))
      | _ => false
  | _ => false

def nonemptyProfiles : List (List V) := L.T.profiles.filter (!·.isEmpty)
/-- can a world have no accessible world at all in this logic's frames -/
def emptyAccessOk : Bool := match L.frame with | .none | .K => true | _ => false
def tablesTotalB : Bool := L.tables.totalB L.modal L.quantified L.emptyAccessOk
/-- value profiles of the accessible worlds: never empty when the frame is serial or reflexive -/
def mProfiles : List (List V) :=
  match L.frame with
  | .none | .K => L.T.profiles
  | _ => L.nonemptyProfiles

/-- A rule is *exact*: on every abstract valuation the target node is satisfied iff some
    extension is (with a witness / for all points as the rule's kind says). -/
def ruleExactB (k : RuleKey) (r : Rule) : Bool :=
  match k.shape with
  | .op1 o =>
      if o.isModal then L.mProfiles.all (L.mRuleExactAt o k r)
      else r.witness == .none && L.T.vals.all fun a => L.opRuleExactAt k r a a
  | .op2 _ => r.witness == .none && L.T.vals.all fun a => L.T.vals.all fun b => L.opRuleExactAt k r a b
  | .quant q => L.nonemptyProfiles.all (L.qRuleExactAt q k r)

/-- the abstract valuations on which a rule is not exact (witnesses for the failing-input search):
    operand value pairs for operator rules, value profiles for quantifier / modal rules -/
def ruleWitnesses (k : RuleKey) (r : Rule) : List (List V) :=
  match k.shape with
  | .op1 o =>
      if o.isModal then L.mProfiles.filter (fun P => !L.mRuleExactAt o k r P)
      else (L.T.vals.filter fun a => !L.opRuleExactAt k r a a).map fun a => [a]
  | .op2 _ => (L.T.vals.flatMap fun a => L.T.vals.map fun b => [a, b]).filter fun
      | [a, b] => !L.opRuleExactAt k r a b
      | _ => false
  | .quant q => L.nonemptyProfiles.filter (fun P => !L.qRuleExactAt q k r P)

/-- the rule keys whose rule is not exact: the *bad set* of the C04 obligation -/
def badRules : List RuleKey := (L.rules.filter fun (k, r) => !L.ruleExactB k r).map (·.1)

/-- soundness half only (node satisfied → some extension satisfied) -/
def ruleSoundB (k : RuleKey) (r : Rule) : Bool :=
  match k.shape with
  | .op1 o =>
      if o.isModal then L.mProfiles.all fun P => !L.nodeSatM o k P ||
        (match r.witness with
         | .none => r.branches.any (fun br => !mBranchHasOther br && L.mBranchSame o k P br)
         | .newWorld => r.branches.any (fun br =>
              L.mBranchSame o k P br && (!mBranchHasOther br || P.any fun v => L.mBranchOther v br))
         | .eachWorld => (match r.branches with
              | [br] => mBranchAllOther br && P.all (fun v => L.mBranchOther v br)
              | _ => false)
         | _ => false)
      else r.witness == .none && L.T.vals.all fun a => !L.nodeSatOp k a a || r.branches.any (L.opBranchSat k a a)
  | .op2 _ => r.witness == .none && L.T.vals.all fun a => L.T.vals.all fun b =>
        !L.nodeSatOp k a b || r.branches.any (L.opBranchSat k a b)
  | .quant q => L.nonemptyProfiles.all fun P => !L.nodeSatQ q k P ||
        (match r.witness with
         | .none => r.branches.any (L.qBranchSat q k P none)
         | .newConst => r.branches.any (fun br => P.any fun v => L.qBranchSat q k P (some v) br)
         | .eachConst => (match r.branches with
              | [br] => P.all (fun v => L.qBranchSat q k P (some v) br)
              | _ => false)
         | _ => false)

def unsoundRules : List RuleKey := (L.rules.filter fun (k, r) => !L.ruleSoundB k r).map (·.1)

/-- every compound shape the logic interprets has a rule -/
def allKeys : List RuleKey :=
  let shapes : List Shape :=
    ([Op1.asrt, Op1.neg] ++ (if L.modal then [Op1.poss, Op1.nec] else [])).map Shape.op1
    ++ Op2.all.map Shape.op2 ++ (if L.quantified then Quant.all.map Shape.quant else [])
  (shapes.flatMap fun sh => [false, true].flatMap fun ng => L.markers.map fun d => (⟨sh, ng, d⟩ : RuleKey)).filter
    fun k => !(k.shape == .op1 .neg && !k.negated)      -- a plain negation is only compound when doubled

def missingRules : List RuleKey := L.allKeys.filter fun k => (L.rule? k).isNone

/-- non-modal rules never leave the node's world -/
def nonLocalRules : List RuleKey :=
  (L.rules.filter fun (k, r) =>
    (match k.shape with | .op1 o => !o.isModal | _ => true) &&
    r.branches.any (·.any fun | .node n => n.other | .access => true)).map (·.1)

/-! ### closure -/

def litVal (l : Lit) (v : V) : V := if l.negated then L.T.f1 .neg v else v
def litsSatBy (S : List Lit) (v : V) : Bool := S.all fun l => L.satV l.des (L.litVal l v)
def litsSatisfiable (S : List Lit) : Bool := L.T.vals.any (L.litsSatBy S)

def allLits : List Lit := [false, true].flatMap fun ng => L.markers.map fun d => (⟨ng, d⟩ : Lit)

/-- closure table rows that are wrong: closes although satisfiable, or stays open although not -/
def badClosure : List (List Lit) :=
  (L.closure.filter fun (S, c) => c == L.litsSatisfiable S).map (·.1)
/-- rows that close although the literal set is satisfiable (the soundness half) -/
def unsoundClosure : List (List Lit) :=
  (L.closure.filter fun (S, c) => c && L.litsSatisfiable S).map (·.1)
def closureTotalB : Bool := (sublists L.allLits).all fun S => (L.closure.lookup S).isSome

/-- read table rows where the value read does not satisfy the (open) literal set -/
def badRead : List (List Lit) :=
  (L.readTable.filter fun (S, v) =>
      (L.closure.lookup S == some false) && !(L.T.vals.contains v && L.litsSatBy S v)).map (·.1)
def readTotalB : Bool :=
  L.closure.all fun (S, c) => c || S.isEmpty || (L.readTable.lookup S).isSome

/-- rules exist only for vocabulary the logic interprets -/
def vocabOKB : Bool :=
  L.rules.all fun (k, _) =>
    match k.shape with
    | .op1 o => !o.isModal || L.modal
    | .quant _ => L.quantified
    | .op2 _ => true

/-- the frame rules present are justified by the frame class of the logic's models -/
def frameRulesOKB : Bool :=
  L.frameRules.all fun n =>
    match L.frame with
    | .none => false
    | .K => false
    | .D => n == "Serial"
    | .T => n == "Reflexive" || n == "Serial"
    | .S4 => n == "Reflexive" || n == "Transitive" || n == "Serial"
    | .S5 => n == "Reflexive" || n == "Transitive" || n == "Symmetric" || n == "Serial"

/-- classical family (identity / existence closure rules present): `T` is the only designated
    value and `¬T` is not designated, so `¬ a=a` and `¬ E!a` are unsatisfiable and a designated
    identity sentence is a true one -/
def identOKB : Bool :=
  !(L.closesSelfIdNeg || L.closesNonExist) ||
    (L.T.vals.all (fun v => !L.T.isDes v || v == .T) && !L.T.isDes (L.T.f1 .neg .T) && !L.marks && !L.closesOtherIdent)

/-- the trunk is satisfied by any countermodel: premises carry a "designated" marker (or none),
    the conclusion an "undesignated" one, or — classical style — is negated, which needs
    `¬des v → des (¬v)` on the logic's own table -/
def trunkOKB : Bool :=
  (L.trunkPrem != some false) &&
  (if L.trunkConcNeg then
      L.trunkConc != some false && L.T.vals.all (fun v => L.T.isDes v || L.T.isDes (L.T.f1 .neg v))
   else L.trunkConc == some false)

/-- side conditions of soundness that do not depend on which rules are in the table -/
def soundCoreB : Bool :=
  L.tablesTotalB && L.unsoundClosure.isEmpty && L.frameRulesOKB && L.identOKB && L.trunkOKB && L.vocabOKB

end LogicData
end Ptx
