/-
  Ptx.Sem.TruthTable — the truth-table oracle for the propositional fragment: enumerate every
  assignment of the logic's values to the sentence letters of an argument.  Executable, core only.
-/
import Ptx.Sem.Logic
namespace Ptx

/-- only sentence letters and truth-functional operators -/
def Sent.isProp : Sent → Bool
  | .atom _ _ => true
  | .pred _ _ => false
  | .quant _ _ _ _ => false
  | .op1 o a => !o.isModal && a.isProp
  | .op2 _ a b => a.isProp && b.isProp

def Sent.atoms : Sent → List (Nat × Nat)
  | .atom i s => [(i, s)]
  | .pred _ _ => []
  | .quant _ _ _ b => b.atoms
  | .op1 _ a => a.atoms
  | .op2 _ a b => a.atoms ++ b.atoms

def Argument.isProp (a : Argument) : Bool := a.premises.all Sent.isProp && a.conclusion.isProp
def Argument.atoms (a : Argument) : List (Nat × Nat) :=
  (a.premises.flatMap Sent.atoms ++ a.conclusion.atoms).eraseDups

abbrev Valuation := List ((Nat × Nat) × V)

def Valuation.get (v : Valuation) (dflt : V) (a : Nat × Nat) : V := (v.lookup a).getD dflt

/-- value of a propositional sentence under an assignment (non-propositional parts get `dflt`) -/
def evalTT (T : Tables) (f : Nat × Nat → V) : Sent → V
  | .atom i s => f (i, s)
  | .pred _ _ => T.unassigned
  | .quant _ _ _ _ => T.unassigned
  | .op1 o a => if o.isModal then T.unassigned else T.f1 o (evalTT T f a)
  | .op2 o a b => T.f2 o (evalTT T f a) (evalTT T f b)

/-- all assignments of values to the given letters -/
def valuations (vals : List V) : List (Nat × Nat) → List Valuation
  | [] => [[]]
  | a :: as => (valuations vals as).flatMap fun v => vals.map fun x => (a, x) :: v

def isCounterTT (T : Tables) (arg : Argument) (f : Nat × Nat → V) : Bool :=
  arg.premises.all (fun p => T.isDes (evalTT T f p)) && !T.isDes (evalTT T f arg.conclusion)

/-- truth-table validity: no assignment designates all premises and not the conclusion -/
def ttValid (T : Tables) (arg : Argument) : Bool :=
  (valuations T.vals arg.atoms).all fun v => !isCounterTT T arg (v.get T.unassigned)

end Ptx
