/-
  Ptx.Sem.Sem — the semantics a logic is judged against: the documented (literature) tables of
  Ptx/Sem/Spec.lean replace the tables extracted from the code; everything else (rules, closure,
  trunk, frames) stays what the code does.  C07 compares the two sets of tables.
-/
import Ptx.Sem.Spec
namespace Ptx
namespace LogicData

/-- the logic with its documented semantics -/
def sem (L : LogicData) : LogicData :=
  match Spec.tablesOf L.name with
  | some t => { L with tables := t }
  | none => L

def specDefinedB (L : LogicData) : Bool := (Spec.tablesOf L.name).isSome

/-- keep only the rules satisfying `p` -/
def restrict (L : LogicData) (p : RuleKey → Rule → Bool) : LogicData :=
  { L with rules := L.rules.filter fun (k, r) => p k r }

/-- the part of the rule table that passes the soundness side-check -/
def soundPart (L : LogicData) : LogicData := L.restrict L.ruleSoundB

/-- the part of the rule table without quantifier rules -/
def noQuantPart (L : LogicData) : LogicData :=
  L.restrict fun k _ => match k.shape with | .quant _ => false | _ => true

/-- rows where the code's tables differ from the documented ones: (what, inputs) -/
def tableDiff (L : LogicData) : List (String × List V) :=
  match Spec.tablesOf L.name with
  | none => [("no-spec", [])]
  | some S =>
    let T := L.tables
    (if T.vals == S.vals then [] else [("vals", T.vals)])
    ++ (if T.des == S.des then [] else [("designated", T.des)])
    ++ ([Op1.asrt, Op1.neg].flatMap fun o => (T.vals.filter fun a => T.t1.lookup (o, a) != S.t1.lookup (o, a)).map
          fun a => (o.name, [a]))
    ++ (Op2.all.flatMap fun o => (T.vals.flatMap fun a => T.vals.map fun b => (a, b)).filterMap
          fun (a, b) => if T.t2.lookup (o, a, b) != S.t2.lookup (o, a, b) then some (o.name, [a, b]) else none)
    ++ (if L.quantified then Quant.all.flatMap fun q => (L.nonemptyProfiles.filter fun P =>
          T.qf.lookup (q, P) != S.qf.lookup (q, P)).map fun P => (q.name, P) else [])
    ++ (if L.modal then [Op1.poss, Op1.nec].flatMap fun o => (L.mProfiles.filter fun P =>
          T.mf.lookup (o, P) != S.mf.lookup (o, P)).map fun P => (o.name, P) else [])

end LogicData
end Ptx
