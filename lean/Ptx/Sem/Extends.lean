/-
  Ptx.Sem.Extends — the decidable table-level condition under which logic `L` EXTENDS a weaker
  logic `L'` (pytableaux: `L.Meta.extension_of ∋ L'`).  Its meaning for arbitrary structures and
  sentences is proved in Ptx/Proofs/Embed.lean.  Core Lean only (the driver evaluates it too).
-/
import Ptx.Tab.Rule
namespace Ptx

/-- every frame of kind `k` is a frame of kind `k'` -/
def FrameKind.implies : FrameKind → FrameKind → Bool
  | _, .none => true
  | _, .K => true
  | .D, .D | .T, .D | .S4, .D | .S5, .D => true
  | .T, .T | .S4, .T | .S5, .T => true
  | .S4, .S4 | .S5, .S4 => true
  | .S5, .S5 => true
  | _, _ => false

namespace LogicData

/-- the values `L` can produce are values of `L'`, and on them `L'` has the tables, folds and
    designation of `L`; `L` interprets all the vocabulary `L'` interprets; frames of `L` are
    frames of `L'`; `L` is classical about identity when `L'` is -/
def embedsB (L' L : LogicData) : Bool :=
  L.T.vals.all L'.T.vals.contains
  && L.T.vals.all (fun v => L'.T.isDes v == L.T.isDes v)
  && [Op1.asrt, Op1.neg].all (fun o => L.T.vals.all fun a => L'.T.f1 o a == L.T.f1 o a)
  && Op2.all.all (fun o => L.T.vals.all fun a => L.T.vals.all fun b => L'.T.f2 o a b == L.T.f2 o a b)
  && (!L'.quantified || (L.quantified &&
        Quant.all.all fun q => L.nonemptyProfiles.all fun P => L'.T.qfold q P == L.T.qfold q P))
  && (!L'.modal || (L.modal &&
        [Op1.poss, Op1.nec].all fun o => L.mProfiles.all fun P => L'.T.mfold o P == L.T.mfold o P))
  && L.frame.implies L'.frame
  && (!(L'.closesSelfIdNeg || L'.closesNonExist) || (L.closesSelfIdNeg || L.closesNonExist))

/-- which parts of `embedsB` fail (diagnostics for the failing-input search) -/
def embedsBad (L' L : LogicData) : List String :=
  (L.T.vals.filter (fun v => !L'.T.vals.contains v)).map (fun v => "vals:" ++ v.toStr)
  ++ (L.T.vals.filter (fun v => L'.T.isDes v != L.T.isDes v)).map (fun v => "des:" ++ v.toStr)
  ++ ([Op1.asrt, Op1.neg].flatMap fun o => (L.T.vals.filter fun a => L'.T.f1 o a != L.T.f1 o a).map
        fun a => o.name ++ ":" ++ a.toStr)
  ++ (Op2.all.flatMap fun o => (L.T.vals.flatMap fun a => L.T.vals.map fun b => (a, b)).filterMap
        fun (a, b) => if L'.T.f2 o a b != L.T.f2 o a b then some (o.name ++ ":" ++ a.toStr ++ b.toStr) else none)
  ++ (if !L'.quantified then [] else
        (if L.quantified then [] else ["quantified"]) ++
        Quant.all.flatMap fun q => (L.nonemptyProfiles.filter fun P => L'.T.qfold q P != L.T.qfold q P).map
          fun P => q.name ++ ":" ++ String.join (P.map V.toStr))
  ++ (if !L'.modal then [] else
        (if L.modal then [] else ["modal"]) ++
        [Op1.poss, Op1.nec].flatMap fun o => (L.mProfiles.filter fun P => L'.T.mfold o P != L.T.mfold o P).map
          fun P => o.name ++ ":" ++ String.join (P.map V.toStr))
  ++ (if L.frame.implies L'.frame then [] else ["frame"])
  ++ (if !(L'.closesSelfIdNeg || L'.closesNonExist) || (L.closesSelfIdNeg || L.closesNonExist) then [] else ["classical"])

end LogicData

/-- all sentences of the argument are in the vocabulary the logic interprets -/
def Argument.inVocab (arg : Argument) (modal quantified : Bool) : Bool :=
  arg.premises.all (·.interp modal quantified) && arg.conclusion.interp modal quantified

end Ptx
