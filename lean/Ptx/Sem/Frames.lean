/-
  Ptx.Sem.Frames — the closure of a set of access pairs that a frame condition requires
  (reflexive / reflexive-transitive / equivalence), as list programs.  Core Lean only.
-/
import Ptx.Sem.Logic
namespace Ptx.Frames

abbrev Rel := List (Nat × Nat)

def addNew (R : Rel) (xs : Rel) : Rel := xs.foldl (fun acc p => if acc.contains p then acc else acc ++ [p]) R

/-- one round: add the pairs the frame condition demands from the pairs present -/
def step (k : FrameKind) (ws : List Nat) (R : Rel) : Rel :=
  let refl : Rel := match k with | .T | .S4 | .S5 => ws.map (fun w => (w, w)) | _ => []
  let trans : Rel := match k with
    | .S4 | .S5 => R.flatMap fun (a, b) => R.filterMap fun (c, d) => if b = c then some (a, d) else none
    | _ => []
  let symm : Rel := match k with | .S5 => R.map (fun (a, b) => (b, a)) | _ => []
  addNew R (refl ++ trans ++ symm)

def iter (k : FrameKind) (ws : List Nat) : Nat → Rel → Rel
  | 0, R => R
  | n + 1, R => iter k ws n (step k ws R)

/-- closure with enough rounds; `stable` says a fixed point was reached -/
def closure (k : FrameKind) (ws : List Nat) (R : Rel) : Rel := iter k ws (ws.length * ws.length + 2) R
def stable (k : FrameKind) (ws : List Nat) (R : Rel) : Bool :=
  let c := closure k ws R
  step k ws c == c

/-- the frame property, on a list relation -/
def Holds (k : FrameKind) (ws : List Nat) (Q : Nat × Nat → Prop) : Prop :=
  (match k with | .T | .S4 | .S5 => ∀ w ∈ ws, Q (w, w) | _ => True) ∧
  (match k with | .S4 | .S5 => ∀ a b c, Q (a, b) → Q (b, c) → Q (a, c) | _ => True) ∧
  (match k with | .S5 => ∀ a b, Q (a, b) → Q (b, a) | _ => True)

theorem mem_addNew {R xs : Rel} {p : Nat × Nat} : p ∈ addNew R xs ↔ p ∈ R ∨ p ∈ xs := by
  unfold addNew
  induction xs generalizing R with
  | nil => simp
  | cons x xs ih =>
    simp only [List.foldl_cons]
    rw [ih]
    by_cases h : R.contains x = true
    · have hx : x ∈ R := by simpa using h
      simp only [h, ↓reduceIte, List.mem_cons]
      constructor
      · rintro (h1 | h1)
        · exact Or.inl h1
        · exact Or.inr (Or.inr h1)
      · rintro (h1 | h1 | h1)
        · exact Or.inl h1
        · subst h1; exact Or.inl hx
        · exact Or.inr h1
    · simp only [h, Bool.false_eq_true, ↓reduceIte, List.mem_append, List.mem_cons, List.not_mem_nil, or_false]
      constructor
      · rintro ((h1 | h1) | h1)
        · exact Or.inl h1
        · exact Or.inr (Or.inl h1)
        · exact Or.inr (Or.inr h1)
      · rintro (h1 | h1 | h1)
        · exact Or.inl (Or.inl h1)
        · exact Or.inl (Or.inr h1)
        · exact Or.inr h1

theorem subset_step (k ws) (R : Rel) : ∀ p ∈ R, p ∈ step k ws R := by
  intro p hp; unfold step; exact mem_addNew.2 (Or.inl hp)

theorem subset_iter (k ws) : ∀ n (R : Rel), ∀ p ∈ R, p ∈ iter k ws n R
  | 0, R, p, hp => hp
  | n + 1, R, p, hp => subset_iter k ws n _ p (subset_step k ws R p hp)

/-- one round stays inside every relation with the frame property that contains the input -/
theorem step_least (k ws) (R : Rel) (Q : Nat × Nat → Prop) (hQ : Holds k ws Q) (hR : ∀ p ∈ R, Q p) :
    ∀ p ∈ step k ws R, Q p := by
  intro p hp
  unfold step at hp
  rcases mem_addNew.1 hp with hp | hp
  · exact hR p hp
  · simp only [List.mem_append] at hp
    obtain ⟨h1, h2, h3⟩ := hQ
    rcases hp with (hp | hp) | hp
    · cases k <;> simp at hp <;> (obtain ⟨w, hw, rfl⟩ := hp; exact h1 w hw)
    · cases k <;> simp at hp <;>
        (obtain ⟨a, b, hab, c, d, hcd, hbc, rfl⟩ := hp; subst hbc; exact h2 _ _ _ (hR _ hab) (hR _ hcd))
    · cases k <;> simp at hp
      obtain ⟨a, b, hab, rfl⟩ := hp
      exact h3 _ _ (hR _ hab)

theorem iter_least (k ws) (Q : Nat × Nat → Prop) (hQ : Holds k ws Q) :
    ∀ n (R : Rel), (∀ p ∈ R, Q p) → ∀ p ∈ iter k ws n R, Q p
  | 0, R, hR => hR
  | n + 1, R, hR => iter_least k ws Q hQ n _ (step_least k ws R Q hQ hR)

def isRefl : FrameKind → Bool | .T | .S4 | .S5 => true | _ => false
def isTrans : FrameKind → Bool | .S4 | .S5 => true | _ => false
def isSymm : FrameKind → Bool | .S5 => true | _ => false

theorem refl_mem_step {k : FrameKind} (hk : isRefl k = true) {ws : List Nat} {c : Rel} {w : Nat} (hw : w ∈ ws) :
    (w, w) ∈ step k ws c := by
  unfold step; apply mem_addNew.2; right
  apply List.mem_append_left; apply List.mem_append_left
  cases k <;> simp [isRefl] at hk <;> exact List.mem_map.2 ⟨w, hw, rfl⟩

theorem trans_mem_step {k : FrameKind} (hk : isTrans k = true) {ws : List Nat} {c : Rel} {a b d : Nat}
    (h1 : (a, b) ∈ c) (h2 : (b, d) ∈ c) : (a, d) ∈ step k ws c := by
  unfold step; apply mem_addNew.2; right
  apply List.mem_append_left; apply List.mem_append_right
  cases k <;> simp [isTrans] at hk <;>
    exact List.mem_flatMap.2 ⟨(a, b), h1, List.mem_filterMap.2 ⟨(b, d), h2, by simp⟩⟩

theorem symm_mem_step {k : FrameKind} (hk : isSymm k = true) {ws : List Nat} {c : Rel} {a b : Nat}
    (h1 : (a, b) ∈ c) : (b, a) ∈ step k ws c := by
  unfold step; apply mem_addNew.2; right
  apply List.mem_append_right
  cases k <;> simp [isSymm] at hk
  exact List.mem_map.2 ⟨(a, b), h1, rfl⟩

/-- a fixed point of `step` has the frame property -/
theorem holds_of_fixed (k ws) (c : Rel) (h : step k ws c = c) : Holds k ws (· ∈ c) := by
  have hin : ∀ p, p ∈ step k ws c → p ∈ c := by intro p hp; rw [h] at hp; exact hp
  refine ⟨?_, ?_, ?_⟩
  · cases k <;> simp only <;> (intro w hw; exact hin _ (refl_mem_step (by rfl) hw))
  · cases k <;> simp only <;> (intro a b d hab hbd; exact hin _ (trans_mem_step (by rfl) hab hbd))
  · cases k <;> simp only
    intro a b hab; exact hin _ (symm_mem_step (by rfl) hab)

end Ptx.Frames
