/-
  Ptx.Sem.SpecReport — compares the documented tables (Ptx.Sem.Spec) with the tables the
  translator extracted from the running code (Ptx.Gen.all).  Run with

      lake env lean --run Ptx/Sem/SpecReport.lean

  Output: one line per differing row
      diff <LOGIC> <what> <inputs> spec=<v> code=<v>
  `<what>` is the operator / quantifier name, or `vals` / `designated` / `unassigned` /
  `modal` / `quantified` / `base-tables`.  Rows that exist on one side only are printed as
  `only-spec` / `only-code` lines (the code has no empty-profile modal row for serial / reflexive
  frames, and no fold rows for unquantified logics — those are expected and counted separately).
-/
import Ptx.Sem.Spec
import Ptx.Gen.All
namespace Ptx.SpecReport
open Ptx

def showVs (vs : List V) : String := "{" ++ ",".intercalate (vs.map V.toStr) ++ "}"
def showOV : Option V → String
  | some v => v.toStr | none => "-"

structure Acc where
  diffs : List String := []
  notes : List String := []
  matched : Nat := 0

def Acc.diff (a : Acc) (s : String) : Acc := { a with diffs := a.diffs ++ [s] }
def Acc.note (a : Acc) (s : String) : Acc := { a with notes := a.notes ++ [s] }
def Acc.ok (a : Acc) : Acc := { a with matched := a.matched + 1 }

/-- compare two association lists over the union of their keys -/
def cmpGraph {κ} [BEq κ] (acc : Acc) (logic : String) (spec code : List (κ × V))
    (what : κ → String) (inputs : κ → String) (expectedAbsent : κ → Bool) : Acc := Id.run do
  let mut acc := acc
  for (k, sv) in spec do
    match code.lookup k with
    | some cv =>
      if sv != cv then
        acc := acc.diff s!"diff {logic} {what k} {inputs k} spec={sv.toStr} code={cv.toStr}"
      else acc := acc.ok
    | none =>
      let line := s!"only-spec {logic} {what k} {inputs k} spec={sv.toStr} code=-"
      acc := if expectedAbsent k then acc.note line else acc.diff line
  for (k, cv) in code do
    if (spec.lookup k).isNone then
      acc := acc.diff s!"only-code {logic} {what k} {inputs k} spec=- code={cv.toStr}"
  return acc

def compareLogic (acc : Acc) (L : LogicData) : Acc := Id.run do
  let n := L.name
  let some S := Spec.tablesOf n
    | return acc.diff s!"diff {n} spec - spec=- code=present"
  let C := L.tables
  let mut acc := acc
  if S.vals != C.vals then
    acc := acc.diff s!"diff {n} vals - spec={showVs S.vals} code={showVs C.vals}"
  if S.des != C.des then
    acc := acc.diff s!"diff {n} designated - spec={showVs S.des} code={showVs C.des}"
  if S.unassigned != C.unassigned then
    acc := acc.diff s!"diff {n} unassigned - spec={S.unassigned.toStr} code={C.unassigned.toStr}"
  if Spec.isModal n != L.modal then
    acc := acc.diff s!"diff {n} modal - spec={Spec.isModal n} code={L.modal}"
  if Spec.isQuantified n != L.quantified then
    acc := acc.diff s!"diff {n} quantified - spec={Spec.isQuantified n} code={L.quantified}"
  acc := cmpGraph acc n S.t1 C.t1 (fun k => k.1.name) (fun k => k.2.toStr) (fun _ => false)
  acc := cmpGraph acc n S.t2 C.t2 (fun k => k.1.name) (fun k => s!"{k.2.1.toStr},{k.2.2.toStr}") (fun _ => false)
  acc := cmpGraph acc n S.qf C.qf (fun k => k.1.name) (fun k => showVs k.2) (fun _ => false)
  -- no world accesses nothing when the frame is serial / reflexive: the code has no such row
  acc := cmpGraph acc n S.mf C.mf (fun k => k.1.name) (fun k => showVs k.2)
            (fun k => k.2.isEmpty && !L.emptyAccessOk)
  return acc

/-- "a modal extension's truth-functional tables are its base's" — on the code side -/
def compareBase (acc : Acc) (L : LogicData) : Acc :=
  let b := Spec.baseOf L.name
  if b == L.name then acc else
  match Gen.byName b with
  | none => acc.diff s!"diff {L.name} base-tables - spec={b} code=-"
  | some Bs =>
    let same := L.tables.vals == Bs.tables.vals && L.tables.des == Bs.tables.des
      && L.tables.t1 == Bs.tables.t1 && L.tables.t2 == Bs.tables.t2
      && (!Bs.quantified || L.tables.qf == Bs.tables.qf)
    if same then acc else acc.diff s!"diff {L.name} base-tables - spec=same-as-{b} code=differs"

def report : Acc := Id.run do
  let mut acc : Acc := {}
  for n in Spec.names do
    if (Gen.byName n).isNone then
      acc := acc.diff s!"diff {n} logic - spec=present code=-"
  for L in Gen.all do
    acc := compareLogic acc L
    acc := compareBase acc L
  return acc

end Ptx.SpecReport

def main : IO Unit := do
  let r := Ptx.SpecReport.report
  for l in r.diffs do IO.println l
  for l in r.notes do IO.println ("note " ++ l)
  IO.println s!"# logics={Ptx.Gen.all.length} rows-equal={r.matched} diffs={r.diffs.length} expected-absent-rows={r.notes.length}"
