/-
  Ptx.Sem.LibModel — executable mirror of the library's model builder, evaluator and export:

    pytableaux/models/__init__.py   BaseModel (set_*_value, value_of*, _unquantify_values,
                                    _unmodal_values, read_branch/_read_node, finish, _complete_frames,
                                    is_countermodel_to, get_data), Frame.get_data,
                                    PredicateInterpretation (having, __setitem__), Access.add / flat,
                                    SerialAccess / ReflexiveAccess / ReflexiveTransitiveAccesss /
                                    GlobalAccess .enforce
    pytableaux/tools/__init__.py    minfloor / maxceil / _limit_best (short-circuit)
    pytableaux/logics/cpl.py        Model.finish, _ensure_self_identity, _ensure_self_existence,
                                    _agument_extension_with_identicals, _get_identicals
    k3wq.py, kk3wq.py               value_of_quantified / value_of_operated: reduce over the logic's own
                                    ∨ / ∧ with a unit                                   (`generalize`)
    mh.py, nh.py                    value_of_quantified on the SET of instance values    (`threeWay`)
    go.py, s4go.py                  map(Assertion) over the instance values, then max/min (`crunch`)

  What the code does is modelled, including the raising paths (explicit `Err` outcomes) and the
  state a raising call leaves behind.  Mutation = functions returning the new state.  Python
  dict / set / defaultdict containers are association lists / duplicate-free lists; wherever the
  code depends on the iteration order of a hash container (cpl.Model.finish: `self.constants`,
  `frame.predicates`) the order is an explicit input (`Hints`).

  Core Lean only: this file is compiled into the driver.
-/
import Ptx.Sem.Frames
import Ptx.Tab.Rule
import Ptx.Lang.Derived
namespace Ptx.LibModel
open Ptx

/-! ### values: the order of `Mval` (by `.value`: F < N < B < T in every value class) -/

def rank : V → Nat
  | .F => 0 | .N => 1 | .B => 2 | .T => 3

def vlt (a b : V) : Bool := rank a < rank b
def vgt (a b : V) : Bool := rank b < rank a
/-- Python `min(a, b)` / `max(a, b)`: the first of equal candidates is kept -/
def vmin (a b : V) : V := if rank b < rank a then b else a
def vmax (a b : V) : V := if rank a < rank b then b else a

/-- `cls.minval = min(values)`, `cls.maxval = max(values)` -/
def minVal (T : Tables) : V := match T.vals with | [] => .F | x :: xs => xs.foldl vmin x
def maxVal (T : Tables) : V := match T.vals with | [] => .T | x :: xs => xs.foldl vmax x
/-- `valseq[0]`, `valseq[-1]` -/
def firstVal (T : Tables) : V := T.vals.head?.getD .F
def lastVal (T : Tables) : V := T.vals.getLast?.getD .T

/-! ### exceptions -/

inductive Err where
  | illegalState | modelValue | denotation | key | value | notImpl
  deriving DecidableEq, Repr, Inhabited

def Err.toStr : Err → String
  | .illegalState => "IllegalStateError" | .modelValue => "ModelValueError"
  | .denotation => "DenotationError" | .key => "KeyError" | .value => "ValueError"
  | .notImpl => "NotImplementedError"

abbrev Res := Except Err

instance {ε α} [DecidableEq ε] [DecidableEq α] : DecidableEq (Except ε α)
  | .ok a, .ok b => if h : a = b then isTrue (by rw [h]) else isFalse (by intro h'; cases h'; exact h rfl)
  | .error a, .error b => if h : a = b then isTrue (by rw [h]) else isFalse (by intro h'; cases h'; exact h rfl)
  | .ok _, .error _ => isFalse (by intro h; cases h)
  | .error _, .ok _ => isFalse (by intro h; cases h)

/-! ### `_limit_best` and the fold programs -/

/-- `tools._limit_best(better, limit, it, default)` on a finished list of values:
    the first item becomes `best` without a limit test; every later item returns at once when it
    equals or beats the limit -/
def limitBestGo (better : V → V → Bool) (limit : V) : V → List V → V
  | best, [] => best
  | best, v :: rest =>
      if v == limit || better v limit then v
      else limitBestGo better limit (if better v best then v else best) rest

def limitBest (better : V → V → Bool) (limit dflt : V) : List V → V
  | [] => dflt
  | x :: xs => limitBestGo better limit x xs

/-- the same on a generator whose items may raise: an item is only evaluated when it is reached -/
def limitBestGoR (better : V → V → Bool) (limit : V) : V → List (Res V) → Res V
  | best, [] => .ok best
  | _, .error e :: _ => .error e
  | best, .ok v :: rest =>
      if v == limit || better v limit then .ok v
      else limitBestGoR better limit (if better v best then v else best) rest

def limitBestR (better : V → V → Bool) (limit dflt : V) : List (Res V) → Res V
  | [] => .ok dflt
  | .error e :: _ => .error e
  | .ok x :: xs => limitBestGoR better limit x xs

/-- `maxceil(self.maxval, it, self.minval)` / `minfloor(self.minval, it, self.maxval)` -/
def baseV (T : Tables) (up : Bool) (xs : List V) : V :=
  if up then limitBest vgt (maxVal T) (minVal T) xs else limitBest vlt (minVal T) (maxVal T) xs
def baseR (T : Tables) (up : Bool) (rs : List (Res V)) : Res V :=
  if up then limitBestR vgt (maxVal T) (minVal T) rs else limitBestR vlt (minVal T) (maxVal T) rs

/-- the operator a quantifier / modal operator generalises (`TruthFunction.generalizers`) -/
def genOp (up : Bool) : Op2 := if up then .disj else .conj
/-- `initial`: `valseq[0]` for Existential / Possibility, `valseq[-1]` for Universal / Necessity -/
def genInit (T : Tables) (up : Bool) : V := if up then firstVal T else lastVal T

/-- `truth_function.generalize(oper, it, initial)` = `reduce(getattr(self, oper.name), it, initial)` -/
def generalizeV (T : Tables) (up : Bool) (xs : List V) : V := xs.foldl (T.f2 (genOp up)) (genInit T up)
def generalizeR (T : Tables) (up : Bool) : V → List (Res V) → Res V
  | acc, [] => .ok acc
  | _, .error e :: _ => .error e
  | acc, .ok v :: rest => generalizeR T up (T.f2 (genOp up) acc v) rest

/-- `set(self._unquantify_values(s))` as the duplicate-free list of the values present -/
def valset (xs : List V) : List V := V.all.filter (xs.contains ·)

/-- mh.py (Existential; `up`) / nh.py (Universal):
      if values.T in valset: return T   |  if values.F in valset: return F
      if len(valset) > 1:   return N    |  if len(valset) > 1:   return B
      return F                          |  return T                              -/
def threeWayV (up : Bool) (xs : List V) : V :=
  let s := valset xs
  if up then (if s.contains .T then .T else if s.length > 1 then .N else .F)
  else (if s.contains .F then .F else if s.length > 1 then .B else .T)

/-- all items of a generator, or the first exception (`set(...)`, `reduce(...)` consume everything) -/
def seqAll : List (Res V) → Res (List V)
  | [] => .ok []
  | .error e :: _ => .error e
  | .ok v :: rest => match seqAll rest with | .ok vs => .ok (v :: vs) | .error e => .error e

/-- go.py / s4go.py: `map(self.truth_function.Assertion, …)` in front of the base program -/
def crunchV (T : Tables) (up : Bool) (xs : List V) : V := baseV T up (xs.map (T.f1 .asrt))
def crunchR (T : Tables) (up : Bool) (rs : List (Res V)) : Res V :=
  baseR T up (rs.map fun r => r.map (T.f1 .asrt))

inductive Prog where
  | base | generalize | threeWay | crunch
  deriving DecidableEq, Repr, Inhabited

def runProgV (T : Tables) (p : Prog) (up : Bool) (xs : List V) : V :=
  match p with
  | .base => baseV T up xs
  | .generalize => generalizeV T up xs
  | .threeWay => threeWayV up xs
  | .crunch => crunchV T up xs

def runProgR (T : Tables) (p : Prog) (up : Bool) (rs : List (Res V)) : Res V :=
  match p with
  | .base => baseR T up rs
  | .generalize => generalizeR T up (genInit T up) rs
  | .threeWay => (seqAll rs).map (threeWayV up)
  | .crunch => crunchR T up rs

/-- which program each logic's evaluator runs for ∃, ∀, ◇, □ (the overrides found in the tree) -/
structure Progs where
  qE : Prog := .base
  qU : Prog := .base
  mM : Prog := .base
  mL : Prog := .base
  deriving DecidableEq, Repr, Inhabited

def progsOfName : String → Progs
  | "K3WQ" => { qE := .generalize, qU := .generalize }
  | "KK3WQ" | "TK3WQ" | "S4K3WQ" | "S5K3WQ" =>
      { qE := .generalize, qU := .generalize, mM := .generalize, mL := .generalize }
  | "MH" => { qE := .threeWay }
  | "NH" => { qU := .threeWay }
  | "GO" => { qE := .crunch, qU := .crunch }
  | "S4GO" => { qE := .crunch, qU := .crunch, mM := .crunch, mL := .crunch }
  | _ => {}

def progsOf (L : LogicData) : Progs := progsOfName L.name

def Progs.q (p : Progs) : Quant → Prog
  | .ex => p.qE | .univ => p.qU
def Progs.m (p : Progs) : Op1 → Prog
  | .nec => p.mL | _ => p.mM

def quantUp : Quant → Bool
  | .ex => true | .univ => false
def modalUp : Op1 → Bool
  | .nec => false | _ => true

/-- value of `Qx…` from the LIST of instance values, as the code computes it -/
def foldQV (L : LogicData) (q : Quant) (xs : List V) : V := runProgV L.T ((progsOf L).q q) (quantUp q) xs
def foldMV (L : LogicData) (o : Op1) (xs : List V) : V := runProgV L.T ((progsOf L).m o) (modalUp o) xs
def foldQR (L : LogicData) (q : Quant) (rs : List (Res V)) : Res V := runProgR L.T ((progsOf L).q q) (quantUp q) rs
def foldMR (L : LogicData) (o : Op1) (rs : List (Res V)) : Res V := runProgR L.T ((progsOf L).m o) (modalUp o) rs

/-- the operator ∘ is associative-commutative-idempotent as an ACTION on `vals`:
    (s∘a)∘b = (s∘b)∘a and (s∘a)∘a = s∘a, and `vals` is closed under it (what `reduce` needs to be
    a function of the SET of items) -/
def aciB (T : Tables) (o : Op2) : Bool :=
  T.vals.all fun s => T.vals.all fun a =>
    T.vals.contains (T.f2 o s a) && T.f2 o (T.f2 o s a) a == T.f2 o s a &&
    T.vals.all fun b => T.f2 o (T.f2 o s a) b == T.f2 o (T.f2 o s b) a

def progSideB (T : Tables) (p : Prog) (up : Bool) : Bool :=
  match p with
  | .generalize => aciB T (genOp up) && T.vals.contains (genInit T up)
  | .crunch => T.vals.all fun a => T.vals.contains (T.f1 .asrt a)
  | _ => true

/-- the program selected for each interpreted operator reproduces the regenerated set-indexed
    graph on every subset of the value set (nonempty subsets; the empty set too where a world can
    lack successors), and a `reduce` program runs over an ACI action -/
def foldProgramsOKB (L : LogicData) : Bool :=
  (!L.quantified || Quant.all.all fun q =>
      progSideB L.T ((progsOf L).q q) (quantUp q) &&
      L.nonemptyProfiles.all fun P => L.T.qf.lookup (q, P) == some (foldQV L q P))
  && (!L.modal || [Op1.poss, Op1.nec].all fun o =>
      progSideB L.T ((progsOf L).m o) (modalUp o) &&
      L.mProfiles.all fun P => L.T.mf.lookup (o, P) == some (foldMV L o P))

/-! ### association lists -/

def aset {κ β} [DecidableEq κ] : List (κ × β) → κ → β → List (κ × β)
  | [], k, v => [(k, v)]
  | (k', v') :: r, k, v => if k' = k then (k, v) :: r else (k', v') :: aset r k v

def akeys {κ β} (l : List (κ × β)) : List κ := l.map (·.1)

def ainsNew {κ β} [DecidableEq κ] (l : List (κ × β)) (k : κ) (v : β) : List (κ × β) :=
  if (l.lookup k).isSome then l else l ++ [(k, v)]

def addNew {α} [DecidableEq α] (l : List α) (x : α) : List α := if l.contains x then l else l ++ [x]

/-! ### the access relation: `Access(defaultdict[int, set[int]])` as its keys and its pairs -/

structure Acc where
  keys : List Nat
  pairs : List (Nat × Nat)
  deriving DecidableEq, Repr, Inhabited

namespace Acc
/-- `self[w]` (creates the key) -/
def touch (R : Acc) (w : Nat) : Acc := { R with keys := addNew R.keys w }
/-- `Access.add`: `self[w1].add(w2); self[w2]` -/
def add (R : Acc) (a b : Nat) : Acc :=
  { keys := addNew (addNew R.keys a) b, pairs := addNew R.pairs (a, b) }
def addAll (R : Acc) (ps : List (Nat × Nat)) : Acc := ps.foldl (fun R p => R.add p.1 p.2) R
/-- `self[w]` read: the successors of `w` -/
def succ (R : Acc) (w : Nat) : List Nat := R.pairs.filterMap fun p => if p.1 = w then some p.2 else none
def has (R : Acc) (a b : Nat) : Bool := R.pairs.contains (a, b)

/-- `SerialAccess.enforce` -/
def enforceSerial (R : Acc) : Acc :=
  let needs := R.keys.filter fun w => (R.succ w).isEmpty
  if needs.isEmpty then R else
    let w2 := R.keys.foldl max 0 + 1
    (R.addAll (needs.map fun w1 => (w1, w2))).add w2 w2

/-- `ReflexiveAccess.enforce` -/
def enforceRefl (R : Acc) : Acc := R.addAll (R.keys.map fun w => (w, w))

def transMissing (R : Acc) : List (Nat × Nat) :=
  R.keys.flatMap fun w1 => (R.succ w1).flatMap fun w2 => (R.succ w2).filterMap fun w3 =>
    if R.has w1 w3 then none else some (w1, w3)

/-- `ReflexiveTransitiveAccesss.enforce`: the `while True` loop with fuel; the flag says the loop
    left through `break` -/
def enforceRT : Nat → Acc → Acc × Bool
  | 0, R => (R, false)
  | n + 1, R =>
      let R := R.enforceRefl
      let add := R.transMissing
      if add.isEmpty then (R, true) else enforceRT n (R.addAll add)

def symMissing (R : Acc) : List (Nat × Nat) :=
  R.keys.flatMap fun w1 => (R.succ w1).filterMap fun w2 => if R.has w2 w1 then none else some (w2, w1)

/-- `GlobalAccess.enforce` -/
def enforceGlobal (inner : Nat) : Nat → Acc → Acc × Bool
  | 0, R => (R, false)
  | n + 1, R =>
      let (R, ok) := enforceRT inner R
      if !ok then (R, false) else
      let add := R.symMissing
      if add.isEmpty then (R, true) else enforceGlobal inner n (R.addAll add)

def fuelOf (R : Acc) : Nat := R.keys.length * R.keys.length + 2

/-- `self.R.enforce()` of the logic's Access class -/
def enforce (k : FrameKind) (R : Acc) : Acc × Bool :=
  match k with
  | .none | .K => (R, true)
  | .D => (R.enforceSerial, true)
  | .T => (R.enforceRefl, true)
  | .S4 => enforceRT R.fuelOf R
  | .S5 => enforceGlobal R.fuelOf R.fuelOf R
end Acc

/-! ### frames and the model -/

abbrev Tup := List Param
abbrev Interp := List (Tup × V)

structure Frame where
  atomics : List ((Nat × Nat) × V) := []
  opaques : List (Sent × V) := []
  preds : List (Pred × Interp) := []
  deriving DecidableEq, Repr, Inhabited

namespace Frame
/-- `frame.predicates[pred]` (defaultdict: creates the empty interpretation) -/
def ensurePred (f : Frame) (p : Pred) : Frame := { f with preds := ainsNew f.preds p [] }
def interp (f : Frame) (p : Pred) : Interp := (f.preds.lookup p).getD []
def setInterp (f : Frame) (p : Pred) (ip : Interp) : Frame := { f with preds := aset f.preds p ip }
end Frame

/-- `BaseModel`.  `self.sentences` is only ever read through `s.atomics` / `s.predicates`
    (`_complete_frames`), so the mirror keeps those two unions -/
structure Model where
  finished : Bool := false
  frameComplete : Bool := false
  frames : List (Nat × Frame) := [(0, {})]
  consts : List (Nat × Nat) := []
  sAtoms : List (Nat × Nat) := []
  sPreds : List Pred := []
  R : Acc := ⟨[0], []⟩
  deriving DecidableEq, Repr, Inhabited

/-- `Model()`: `self.frames[0]`, `self.R[0]` -/
def Model.init : Model := {}

abbrev Step := Model × Option Err

def hasVal (L : LogicData) (v : V) : Bool := L.T.vals.contains v

/-- `is_sentence_opaque` -/
def isOpaque (L : LogicData) : Sent → Bool
  | .quant _ _ _ _ => !L.quantified
  | .op1 o _ => o.isModal && !L.modal
  | _ => false

/-- `is_sentence_literal` -/
def isLiteral (L : LogicData) : Sent → Bool
  | .atom _ _ => true
  | .pred _ _ => true
  | .op1 .neg a => (match a with | .atom _ _ => true | .pred _ _ => true | _ => false) || isOpaque L a
  | _ => false

def constsOfTup (t : Tup) : List (Nat × Nat) := t.filterMap fun | .const i j => some (i, j) | _ => none
def sentConsts (s : Sent) : List (Nat × Nat) := constsOfTup s.constants

/-- `self.frames[world]` while building: a `defaultdict` in modal logics, `MappingProxyType({0: …})`
    otherwise (KeyError) -/
def frameAt (L : LogicData) (m : Model) (w : Nat) : Res (Model × Frame) :=
  match m.frames.lookup w with
  | some f => .ok (m, f)
  | none => if L.modal then .ok ({ m with frames := m.frames ++ [(w, {})] }, {}) else .error .key

def putFrame (m : Model) (w : Nat) (f : Frame) : Model := { m with frames := aset m.frames w f }

/-- `set_atomic_value` -/
def setAtomic (L : LogicData) (m : Model) (a : Nat × Nat) (v : V) (w : Nat) : Step :=
  if m.finished then (m, some .illegalState) else
  if !hasVal L v then (m, some .key) else
  match frameAt L m w with
  | .error e => (m, some e)
  | .ok (m, f) =>
    match f.atomics.lookup a with
    | some old => if old = v then ({ m with sAtoms := uni m.sAtoms [a] }, none) else (m, some .modelValue)
    | none => ({ putFrame m w { f with atomics := aset f.atomics a v } with sAtoms := uni m.sAtoms [a] }, none)

/-- `set_opaque_value` (whether `s` is opaque for the logic is not checked by the code) -/
def setOpaque (L : LogicData) (m : Model) (s : Sent) (v : V) (w : Nat) : Step :=
  if m.finished then (m, some .illegalState) else
  if !hasVal L v then (m, some .key) else
  match frameAt L m w with
  | .error e => (m, some e)
  | .ok (m, f) =>
    match f.opaques.lookup s with
    | some old =>
      if old = v then
        let f := s.predicates.foldl Frame.ensurePred f
        ({ putFrame m w f with sAtoms := uni m.sAtoms s.atomics, sPreds := uni m.sPreds s.predicates,
                               consts := uni m.consts (sentConsts s) }, none)
      else (m, some .modelValue)
    | none =>
      let f := s.predicates.foldl Frame.ensurePred { f with opaques := aset f.opaques s v }
      ({ putFrame m w f with sAtoms := uni m.sAtoms s.atomics, sPreds := uni m.sPreds s.predicates,
                             consts := uni m.consts (sentConsts s) }, none)

/-- `set_predicated_value`: the frame is fetched (created) BEFORE the free-variable test;
    `PredicateInterpretation.__setitem__` raises on a different value already present -/
def setPredicated (L : LogicData) (m : Model) (p : Pred) (ps : Tup) (v : V) (w : Nat) : Step :=
  if m.finished then (m, some .illegalState) else
  if !hasVal L v then (m, some .key) else
  match frameAt L m w with
  | .error e => (m, some e)
  | .ok (m, f) =>
    if ps.any Param.isVar then (m, some .value) else
    let f := f.ensurePred p
    match (f.interp p).lookup ps with
    | some old =>
      if old = v then
        ({ putFrame m w f with consts := uni m.consts (constsOfTup ps), sPreds := uni m.sPreds [p] }, none)
      else (putFrame m w f, some .modelValue)
    | none =>
      ({ putFrame m w (f.setInterp p (aset (f.interp p) ps v)) with
           consts := uni m.consts (constsOfTup ps), sPreds := uni m.sPreds [p] }, none)

/-- `set_literal_value` -/
def setLiteral (L : LogicData) (m : Model) (s : Sent) (v : V) (w : Nat) : Step :=
  if m.finished then (m, some .illegalState) else
  if !hasVal L v then (m, some .key) else
  if isOpaque L s then setOpaque L m s v w else
  match s with
  | .op1 .neg a => setLiteral L m a (L.T.f1 .neg v) w
  | .atom i j => setAtomic L m (i, j) v w
  | .pred p ps => setPredicated L m p ps v w
  | _ => (m, some .notImpl)

/-- `set_value` -/
def setValue (L : LogicData) (m : Model) (s : Sent) (v : V) (w : Nat) : Step :=
  if m.finished then (m, some .illegalState) else
  if !hasVal L v then (m, some .key) else
  if isOpaque L s then setOpaque L m s v w else
  if isLiteral L s then setLiteral L m s v w else (m, some .notImpl)

/-! ### `_complete_frames` -/

def fillMissing {κ} [DecidableEq κ] (keys : List κ) (un : V) (l : List (κ × V)) : List (κ × V) :=
  keys.foldl (fun l k => ainsNew l k un) l

def completeFrames (L : LogicData) (m : Model) : Res Model :=
  if m.frameComplete then .ok m else
  -- `for w in self.R: self.frames[w]`
  if !L.modal && m.R.keys.any (· != 0) then .error .key else
  let frames := m.R.keys.foldl (fun fs w => ainsNew fs w ({} : Frame)) m.frames
  -- `for w in self.frames: self.R[w]`
  let R := (akeys frames).foldl Acc.touch m.R
  let atomics := frames.foldl (fun acc wf => uni acc (akeys wf.2.atomics)) m.sAtoms
  let opaques := frames.foldl (fun acc wf => uni acc (akeys wf.2.opaques)) ([] : List Sent)
  let preds := frames.foldl (fun acc wf => uni acc (akeys wf.2.preds)) m.sPreds
  let un := L.T.unassigned
  let frames := frames.map fun wf =>
    (wf.1, ({ atomics := fillMissing atomics un wf.2.atomics,
              opaques := fillMissing opaques un wf.2.opaques,
              preds := preds.foldl (fun ps p => ainsNew ps p []) wf.2.preds } : Frame))
  .ok { m with frames := frames, R := R, frameComplete := true }

/-! ### cpl.Model.finish: identity / existence completion (one pass) -/

/-- iteration orders of hash containers observed on the real object: `self.constants`, and
    `frame.predicates` per world -/
structure Hints where
  consts : List (Nat × Nat) := []
  preds : List (Nat × List Pred) := []
  deriving Repr, Inhabited

/-- the members of `xs` in the order of `hint` (members the hint does not mention keep their place at the end) -/
def orderBy {α} [DecidableEq α] (hint xs : List α) : List α :=
  hint.filter (xs.contains ·) ++ xs.filter (!hint.contains ·)

/-- `PredicateInterpretation.having(*values)`: `for params, value in self.items()` — the items view of
    a `Mapping` walks the keys and reads `self[key]` -/
def having (ip : Interp) (vs : List V) : List Tup :=
  (akeys ip).filter fun t => match ip.lookup t with | some v => vs.contains v | none => false

/-- `_get_identicals(c, w)` (the frame already has its Identity entry) -/
def identicals (f : Frame) (c : Param) : List Param :=
  (toSet (((having (f.interp Pred.identity) [.T]).filter (·.contains c)).flatten)).filter (· ≠ c)

/-- `tools.substitute(params, c, new_c)` -/
def substTup (t : Tup) (c new : Param) : Tup := t.map fun x => if x = c then new else x

/-- `interp[params] = 'T'` -/
def setT (ip : Interp) (t : Tup) : Res Interp :=
  match ip.lookup t with
  | some v => if v = .T then .ok ip else .error .modelValue
  | none => .ok (ip ++ [(t, .T)])

def setAllT : Interp → List Tup → Res Interp
  | ip, [] => .ok ip
  | ip, t :: ts => match setT ip t with | .ok ip => setAllT ip ts | .error e => .error e

/-- one round of the `for c in self.constants` loop of `_agument_extension_with_identicals` -/
def augmentC (f : Frame) (p : Pred) (c : Param) : Res Frame :=
  let f := f.ensurePred Pred.identity
  let ids := identicals f c
  let ip := f.interp p
  let toAdd := ((having ip [.T]).filter (·.contains c)).flatMap fun t => ids.map fun n => substTup t c n
  match setAllT ip toAdd with
  | .ok ip => .ok (f.setInterp p ip)
  | .error e => .error e

def foldRes {α β} (step : β → α → Res β) : β → List α → Res β
  | b, [] => .ok b
  | b, a :: as => match step b a with | .ok b => foldRes step b as | .error e => .error e

def augment (cs : List Param) (f : Frame) (p : Pred) : Res Frame :=
  foldRes (fun f c => augmentC f p c) (f.ensurePred p) cs

/-- `_ensure_self_identity` / `_ensure_self_existence` -/
def ensureSelf (cs : List Param) (p : Pred) (mk : Param → Tup) (f : Frame) : Res Frame :=
  if cs.isEmpty then .ok f else
  let f := f.ensurePred p
  match setAllT (f.interp p) (cs.map mk) with
  | .ok ip => .ok (f.setInterp p ip)
  | .error e => .error e

/-- the body of the `for w, frame in self.frames.items()` loop -/
def cplFrame (cs : List Param) (snapshot : List Pred) (f : Frame) : Res Frame :=
  match foldRes (augment cs) f snapshot with
  | .error e => .error e
  | .ok f =>
    match ensureSelf cs Pred.identity (fun c => [c, c]) f with
    | .error e => .error e
    | .ok f => ensureSelf cs Pred.existence (fun c => [c]) f

def constParams (cs : List (Nat × Nat)) : List Param := cs.map fun c => .const c.1 c.2

def cplFrames (h : Hints) (m : Model) : Res Model :=
  let cs := constParams (orderBy h.consts m.consts)
  match foldRes (fun (acc : List (Nat × Frame)) (wf : Nat × Frame) =>
      match cplFrame cs (orderBy ((h.preds.lookup wf.1).getD []) (akeys wf.2.preds)) wf.2 with
      | .ok f => .ok (acc ++ [(wf.1, f)])
      | .error e => .error e) [] m.frames with
  | .ok frames => .ok { m with frames := frames }
  | .error e => .error e

def isClassical (L : LogicData) : Bool := L.T.vals == [.F, .T]

/-- `BaseModel.finish` after the frames are complete: `self.R.enforce(); self._finished = True`
    (second component: did the enforce loop leave through `break`) -/
def finishBase (L : LogicData) (m : Model) : Model × Bool :=
  let r := Acc.enforce L.frame m.R
  ({ m with R := r.1, finished := true }, r.2)

/-- `Model.finish()`.  After a ModelValueError raised inside cpl.Model.finish the real object is left
    partially augmented (in an order that depends on the iteration order of a temporary set); the
    mirror keeps the state reached by `_complete_frames` and the harness cuts programs there. -/
def finishX (L : LogicData) (h : Hints) (m : Model) : Step × Bool :=
  if m.finished then ((m, some .illegalState), true) else
  match completeFrames L m with
  | .error e => ((m, some e), true)
  | .ok m1 =>
    if isClassical L then
      match cplFrames h m1 with
      | .error e => ((m1, some e), true)
      | .ok m2 => let r := finishBase L m2; ((r.1, none), r.2)
    else let r := finishBase L m1; ((r.1, none), r.2)

def finish (L : LogicData) (h : Hints) (m : Model) : Step := (finishX L h m).1

/-! ### programs of API calls -/

inductive MOp where
  | setAtomic (i j : Nat) (v : V) (w : Nat)
  | setPred (p : Pred) (ps : Tup) (v : V) (w : Nat)
  | setOpaque (s : Sent) (v : V) (w : Nat)
  | setLiteral (s : Sent) (v : V) (w : Nat)
  | setValue (s : Sent) (v : V) (w : Nat)
  | rAdd (a b : Nat)
  | finish
  deriving DecidableEq, Repr, Inhabited

def step (L : LogicData) (h : Hints) (m : Model) : MOp → Step
  | .setAtomic i j v w => setAtomic L m (i, j) v w
  | .setPred p ps v w => setPredicated L m p ps v w
  | .setOpaque s v w => setOpaque L m s v w
  | .setLiteral s v w => setLiteral L m s v w
  | .setValue s v w => setValue L m s v w
  | .rAdd a b => ({ m with R := m.R.add a b }, none)          -- `Model.R.add` does not look at `finished`
  | .finish => finish L h m

def run (L : LogicData) (h : Hints) : Model → List MOp → Model × List (Option Err)
  | m, [] => (m, [])
  | m, op :: ops =>
      let r := step L h m op
      let rest := run L h r.1 ops
      (rest.1, r.2 :: rest.2)

/-! ### read_branch -/

/-- `branch.has(sdwnode(s, d, w))`: a node carrying (at least) these properties -/
def branchHas (b : List Node) (s : Sent) (d : Bool) (w : Option Nat) : Bool :=
  b.any fun
    | .sent s' d' w' => s' = s && d' = some d && (match w with | none => true | some _ => w' = w)
    | _ => false

/-- `'TNFB'` / `'FNTB'` indexed by `2 * d + has_negative` -/
def readValue (negated d hasNeg : Bool) : V :=
  match negated, d, hasNeg with
  | true, false, false => .T | true, false, true => .N | true, true, false => .F | true, true, true => .B
  | false, false, false => .F | false, false, true => .N | false, true, false => .T | false, true, true => .B

/-- `_read_node` -/
def readNode (L : LogicData) (m : Model) (b : List Node) (n : Node) : Step :=
  if m.finished then (m, some .illegalState) else
  match n with
  | .access w1 w2 => ({ m with R := m.R.add w1 w2 }, none)
  | .flag _ => (m, none)
  | .ellipsis => (m, none)
  | .sent s d wo =>
    let m := match wo with | some w => { m with R := m.R.touch w } | none => m
    let w := wo.getD 0
    let m := { m with sAtoms := uni m.sAtoms s.atomics, sPreds := uni m.sPreds s.predicates,
                      consts := uni m.consts (sentConsts s) }
    let isLit := isLiteral L s
    let isOpq := isOpaque L s
    if !isLit && !isOpq then (m, none) else
    let sv : Sent × V := match d with
      | some d =>
        let hasNeg := branchHas b s.negative d wo
        if s.isNeg then (s.negative, readValue true d hasNeg) else (s, readValue false d hasNeg)
      | none => (s, .T)
    if !hasVal L sv.2 then (m, some .key) else
    if isOpq then setOpaque L m sv.1 sv.2 w else setLiteral L m sv.1 sv.2 w

/-- the `for node in branch: read(node, branch)` loop of `read_branch` -/
def readNodes (L : LogicData) (b : List Node) : Model → List Node → Step
  | m, [] => (m, none)
  | m, n :: ns => match readNode L m b n with
    | (m, none) => readNodes L b m ns
    | (m, some e) => (m, some e)

/-- `read_branch` -/
def readBranch (L : LogicData) (h : Hints) (m : Model) (b : List Node) : Step :=
  if m.finished then (m, some .illegalState) else
  match readNodes L b m b with
  | (m, none) => finish L h m
  | (m, some e) => (m, some e)

/-! ### evaluation -/

/-- `self.frames[world]` on a finished model (modal: the defaultdict answers with a fresh frame) -/
def frameOf (L : LogicData) (m : Model) (w : Nat) : Res Frame :=
  match m.frames.lookup w with
  | some f => .ok f
  | none => if L.modal then .ok {} else .error .key

/-- every parameter is one of the constants `cs` (a variable never is) -/
def tupIn (cs : List (Nat × Nat)) (ps : Tup) : Bool :=
  ps.all fun | .const i j => cs.contains (i, j) | .var _ _ => false
def tupInConsts (m : Model) (ps : Tup) : Bool := tupIn m.consts ps

/-- `value_of(s, world=w)`; `c >> s` keeps the size, so the fuel `s.size` is never exhausted -/
def valueOfF (L : LogicData) (m : Model) : Nat → Sent → Nat → Res V
  | 0, _, _ => .error .notImpl
  | fuel + 1, s, w =>
    if !m.finished then .error .illegalState else
    if isOpaque L s then (frameOf L m w).map fun f => (f.opaques.lookup s).getD L.T.unassigned else
    match s with
    | .atom i j => (frameOf L m w).map fun f => (f.atomics.lookup (i, j)).getD L.T.unassigned
    | .pred p ps =>
        if !tupInConsts m ps then .error .denotation else
        (frameOf L m w).map fun f => ((f.interp p).lookup ps).getD L.T.unassigned
    | .quant q vi vs b =>
        foldQR L q (m.consts.map fun c => valueOfF L m fuel (b.psubst (.const c.1 c.2) (.var vi vs)) w)
    | .op1 o a =>
        if o.isModal then foldMR L o ((m.R.succ w).map fun w2 => valueOfF L m fuel a w2)
        else (valueOfF L m fuel a w).map (L.T.f1 o)
    | .op2 o a b =>
        match valueOfF L m fuel a w with
        | .error e => .error e
        | .ok x => (valueOfF L m fuel b w).map (L.T.f2 o x)

def valueOf (L : LogicData) (m : Model) (s : Sent) (w : Nat) : Res V := valueOfF L m s.size s w

/-- `is_countermodel_to` (`all(...)` stops at the first undesignated premise) -/
def premisesDes (L : LogicData) (m : Model) : List Sent → Res Bool
  | [] => .ok true
  | p :: ps => match valueOf L m p 0 with
    | .error e => .error e
    | .ok v => if L.T.isDes v then premisesDes L m ps else .ok false

def isCountermodelTo (L : LogicData) (m : Model) (a : Argument) : Res Bool :=
  match premisesDes L m a.premises with
  | .error e => .error e
  | .ok false => .ok false
  | .ok true => (valueOf L m a.conclusion 0).map fun v => !L.T.isDes v

/-! ### get_data -/

/-- insertion sort by sort keys under `Lexical.orderitems` (`sorted(...)`) -/
def insertByKey {α} (key : α → List Int) (x : α) : List α → List α
  | [] => [x]
  | y :: ys => if cmpDiff (key x) (key y) ≤ 0 then x :: y :: ys else y :: insertByKey key x ys
def sortByKey {α} (key : α → List Int) : List α → List α
  | [] => []
  | x :: xs => insertByKey key x (sortByKey key xs)

def natKey (n : Nat) : List Int := [(n : Int)]
def atomKey (a : Nat × Nat) : List Int := Sent.key (.atom a.1 a.2)

structure PredData where
  pred : Pred
  ext : List Tup
  anti : Option (List Tup)
  deriving DecidableEq, Repr, Inhabited

structure FrameData where
  atomics : List ((Nat × Nat) × V)
  opaques : List (Sent × V)
  preds : List PredData
  deriving DecidableEq, Repr, Inhabited

structure Data where
  modal : Bool
  worlds : List Nat
  access : List (Nat × Nat)
  frames : List (Nat × FrameData)
  deriving DecidableEq, Repr, Inhabited

def manyValued (L : LogicData) : Bool := L.T.vals.length != 2

/-- the values among `names` the logic has (`values.get(str(value), None)`, `filter(None, …)`) -/
def knownVals (L : LogicData) (names : List V) : List V := names.filter (hasVal L)

/-- `Frame.get_data`: `sorted(base)` then `base[sentence]`; `sorted(self.predicates)`;
    `sorted(interp.having(*'TB'))`, and for many-valued logics `sorted(interp.having(*'BF'))` -/
def frameData (L : LogicData) (f : Frame) : FrameData :=
  { atomics := (sortByKey atomKey (akeys f.atomics)).filterMap fun a => (f.atomics.lookup a).map fun v => (a, v)
    opaques := (sortByKey Sent.key (akeys f.opaques)).filterMap fun s => (f.opaques.lookup s).map fun v => (s, v)
    preds := (sortByKey Pred.key (akeys f.preds)).map fun p =>
      { pred := p
        ext := sortByKey paramsKey (having (f.interp p) (knownVals L [.T, .B]))
        anti := if manyValued L then some (sortByKey paramsKey (having (f.interp p) (knownVals L [.B, .F]))) else none } }

/-- `BaseModel.get_data` -/
def getData (L : LogicData) (m : Model) : Data :=
  if !L.modal then
    { modal := false, worlds := [], access := [], frames := [(0, frameData L ((m.frames.lookup 0).getD {}))] }
  else
    let worlds := sortByKey natKey (akeys m.frames)
    { modal := true
      worlds := worlds
      access := worlds.flatMap fun w1 => (sortByKey natKey (m.R.succ w1)).map fun w2 => (w1, w2)
      frames := worlds.map fun w => (w, frameData L ((m.frames.lookup w).getD {})) }

end Ptx.LibModel
