/-
  Ptx.Sem.Struct — what an interpretation of a logic IS (the oracle of C01/C02/C04/C05):
  worlds with an access relation, a nonempty domain, per-world values of sentence letters and
  predications, and — for vocabulary the logic does not interpret — per-world values of
  opaque sentences.  `eval` is the documented recursive semantics, with the logic's truth
  tables for the operators and its set-indexed folds for quantifiers and modal operators.

  The definitions are noncomputable (they quantify over arbitrary domains / world sets);
  they are specification, never run.  Core Lean only.
-/
import Ptx.Sem.Logic
import Ptx.Tab.Node
namespace Ptx

/-- substitute parameter `new` for parameter `old` (lang/lex.py `substitute`; a quantifier's own
    variable is not touched, its body is) -/
def Param.psubst (new old : Param) (p : Param) : Param := if p = old then new else p

def Sent.psubst (new old : Param) : Sent → Sent
  | .atom i s => .atom i s
  | .pred p ps => .pred p (ps.map (Param.psubst new old))
  | .quant q vi vs b => .quant q vi vs (b.psubst new old)
  | .op1 o a => .op1 o (a.psubst new old)
  | .op2 o a b => .op2 o (a.psubst new old) (b.psubst new old)

/-- `c >> Qx.φ` : instantiate the body with a constant (Quantified.unquantify) -/
def Sent.instC (ci cs : Nat) : Sent → Sent
  | .quant _ vi vs b => b.psubst (.const ci cs) (.var vi vs)
  | s => s

structure Struct where
  W : Type
  D : Type
  R : W → W → Prop
  dflt : D
  atomV : W → Nat → Nat → V
  predV : W → Pred → List D → V
  opaqueV : W → Sent → V

/-- interpretation of parameters: constants and (free) variables -/
structure Env (D : Type) where
  c : Nat → Nat → D
  g : Nat → Nat → D

namespace Env
def den {D} (e : Env D) : Param → D
  | .const i s => e.c i s
  | .var i s => e.g i s
def updVar {D} (e : Env D) (vi vs : Nat) (d : D) : Env D :=
  { e with g := fun i s => if i = vi ∧ s = vs then d else e.g i s }
def updConst {D} (e : Env D) (ci cs : Nat) (d : D) : Env D :=
  { e with c := fun i s => if i = ci ∧ s = cs then d else e.c i s }
end Env

open Classical in
/-- the set of values a family takes on an index set, as the canonical sublist of `vals` -/
noncomputable def profile (T : Tables) {ι : Type} (S : ι → Prop) (f : ι → V) : List V :=
  T.vals.filter (fun v => decide (∃ i, S i ∧ f i = v))

/-- the documented recursive semantics -/
noncomputable def eval (L : LogicData) (M : Struct) : Env M.D → M.W → Sent → V
  | e, w, .atom i s => M.atomV w i s
  | e, w, .pred p ps => M.predV w p (ps.map e.den)
  | e, w, .quant q vi vs b =>
      if L.quantified then
        L.T.qfold q (profile L.T (fun _ : M.D => True) (fun d => eval L M (e.updVar vi vs d) w b))
      else M.opaqueV w (.quant q vi vs b)
  | e, w, .op1 o a =>
      if o.isModal then
        if L.modal then L.T.mfold o (profile L.T (fun w' => M.R w w') (fun w' => eval L M e w' a))
        else M.opaqueV w (.op1 o a)
      else L.T.f1 o (eval L M e w a)
  | e, w, .op2 o a b => L.T.f2 o (eval L M e w a) (eval L M e w b)

/-- all values the structure assigns are values of the logic -/
def Struct.ValsOK (M : Struct) (T : Tables) : Prop :=
  (∀ w i s, M.atomV w i s ∈ T.vals) ∧ (∀ w p ds, M.predV w p ds ∈ T.vals) ∧ (∀ w s, M.opaqueV w s ∈ T.vals)

/-- the frame condition of the logic -/
def Struct.FrameOK (M : Struct) : FrameKind → Prop
  | .none => True
  | .K => True
  | .D => ∀ w, ∃ w', M.R w w'
  | .T => ∀ w, M.R w w
  | .S4 => (∀ w, M.R w w) ∧ (∀ a b c, M.R a b → M.R b c → M.R a c)
  | .S5 => (∀ w, M.R w w) ∧ (∀ a b c, M.R a b → M.R b c → M.R a c) ∧ (∀ a b, M.R a b → M.R b a)

/-- classical family: Identity is identity of the domain at every world, Existence holds of everything -/
def Struct.ClassicalOK (M : Struct) : Prop :=
  (∀ w a b, M.predV w Pred.identity [a, b] = .T ↔ a = b) ∧
  (∀ w a, M.predV w Pred.existence [a] = .T)

/-- node satisfaction; `σ` maps the world labels of nodes to worlds of the structure
    (a node without world sits at label 0) -/
noncomputable def satNode (L : LogicData) (M : Struct) (e : Env M.D) (σ : Nat → M.W) : Node → Prop
  | .sent s d w => L.satV d (eval L M e (σ (w.getD 0)) s) = true
  | .access a b => M.R (σ a) (σ b)
  | .flag _ => True
  | .ellipsis => True

/-- `M` is a countermodel to the argument (at world `w0`): every premise designated, the conclusion not -/
noncomputable def Countermodel (L : LogicData) (M : Struct) (e : Env M.D) (w0 : M.W) (arg : Argument) : Prop :=
  (∀ p ∈ arg.premises, L.T.isDes (eval L M e w0 p) = true) ∧ L.T.isDes (eval L M e w0 arg.conclusion) = false

end Ptx
